#!/bin/sh
# Offline setup: build the harness once (debug + release) and parse every TLA+ module.
set -e
cd "$(dirname "$0")"
mkdir -p work replays evidence
(cd harness && CARGO_NET_OFFLINE=true cargo build --offline && CARGO_NET_OFFLINE=true cargo build --offline --release)
# variant builds used by C11 (no_std roots) and C16 (std / no_std x debug / release); failures here are left to the checks to report
(cd harness && CARGO_NET_OFFLINE=true cargo build --offline --no-default-features --features rand,serde --target-dir target-rand_serde >/dev/null 2>&1 || true)
(cd harness && CARGO_NET_OFFLINE=true cargo build --offline --no-default-features --features std,rand,serde,quickcheck,arbitrary --target-dir target-std_rand_serde_quickcheck_arbitrary >/dev/null 2>&1 || true)
(cd harness && for prof in "" "--release"; do
   CARGO_NET_OFFLINE=true cargo build --offline $prof --no-default-features --target-dir target-nostd >/dev/null 2>&1 || true
   CARGO_NET_OFFLINE=true cargo build --offline $prof --no-default-features --features std --target-dir target-std >/dev/null 2>&1 || true
 done)
# the interpreter module AsmBlock extends the generated program module: generate it once for parsing
mkdir -p work/gen
python3 tools/extract_asm.py /repo/src/biguint/addition.rs schoolbook_add_assign_x86_64 AsmProg work/gen >/dev/null 2>&1 || \
  printf -- '---- MODULE AsmProg ----\nProg == <<>>\nOperands == [x |-> [cls |-> "in", reg |-> "reg", expr |-> "x"]]\nRegNames == {"x"}\nParams == <<"lhs", "rhs", "size">>\nBlockDiv == 1\nSizeParam == "x"\nEarlyReturn == FALSE\nIdx0 == 0\nRetCarry == "x"\nRetDone == "x"\nOptions == {}\n====\n' > work/gen/AsmProg.tla
python3 tools/extract_forms.py /repo/src work/gen >/dev/null 2>&1 || printf -- '---- MODULE OpFormsTable ----\nTable == <<>>\n====\n' > work/gen/OpFormsTable.tla
for f in spec/*.tla mc/*.tla spec/algo/*.tla; do
  [ -f "$f" ] || continue
  d=$(dirname "$f"); b=$(basename "$f")
  (cd "$d" && java -cp /opt/veriftools/tla/tla2tools.jar:/opt/veriftools/tla/CommunityModules-deps.jar -DTLA-Library=/verif/spec:/verif/spec/algo:/verif/mc:/verif/work/gen tla2sany.SANY "$b" >/tmp/sany.$$ 2>&1) || { cat /tmp/sany.$$; rm -f /tmp/sany.$$; echo "SANY failed on $f"; exit 1; }
  rm -f /tmp/sany.$$
done
echo setup ok
