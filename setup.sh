#!/bin/sh
# Offline setup: build the harness once (debug + release) and parse every TLA+ module.
set -e
cd "$(dirname "$0")"
mkdir -p work replays evidence
(cd harness && CARGO_NET_OFFLINE=true cargo build --offline && CARGO_NET_OFFLINE=true cargo build --offline --release)
for f in spec/*.tla mc/*.tla spec/algo/*.tla; do
  [ -f "$f" ] || continue
  d=$(dirname "$f"); b=$(basename "$f")
  (cd "$d" && java -cp /opt/veriftools/tla/tla2tools.jar:/opt/veriftools/tla/CommunityModules-deps.jar -DTLA-Library=/verif/spec:/verif/spec/algo:/verif/mc tla2sany.SANY "$b" >/tmp/sany.$$ 2>&1) || { cat /tmp/sany.$$; rm -f /tmp/sany.$$; echo "SANY failed on $f"; exit 1; }
  rm -f /tmp/sany.$$
done
echo setup ok
