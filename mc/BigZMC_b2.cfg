CONSTANTS Base = 2  R = 40  K = 8
INIT Init
NEXT Next
INVARIANT Inv
CHECK_DEADLOCK FALSE
