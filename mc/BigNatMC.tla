------------------------------ MODULE BigNatMC ------------------------------
(* Cross-check of the L0 operators against TLC's own integer arithmetic,    *)
(* for every pair of canonical operands of at most MaxLen digits.           *)
EXTENDS BigNat, TLC
CONSTANT MaxLen, Pow2Base   \* Pow2Base: TRUE when Base is a power of two (bit operators checked)
VARIABLES a, b

RECURSIVE SeqsUpTo(_)
SeqsUpTo(n) == IF n = 0 THEN {<<>>}
               ELSE SeqsUpTo(n - 1) \cup {Append(s, d) : s \in {t \in SeqsUpTo(n - 1) : Len(t) = n - 1}, d \in 1..(Base - 1)}
                    \cup {Append(s, d) : s \in [1..(n - 1) -> 0..(Base - 1)], d \in 1..(Base - 1)}
Canon == {s \in UNION {[1..n -> 0..(Base - 1)] : n \in 0..MaxLen} : IsCanon(s)}

Init == a \in Canon /\ b \in Canon
Next == UNCHANGED <<a, b>>

va == Val(a)
vb == Val(b)
RECURSIVE IPow(_, _)
IPow(x, e) == IF e = 0 THEN 1 ELSE x * IPow(x, e - 1)
IAnd(x, y) == x & y
Small == {0, 1, 2, 3, 7, 10, Base - 1, Base, Base + 1, 36, 255}

Arith ==
    /\ IsCanon(Add(a, b)) /\ Val(Add(a, b)) = va + vb
    /\ Cmp(a, b) = (IF va < vb THEN -1 ELSE IF va = vb THEN 0 ELSE 1)
    /\ (va >= vb => IsCanon(Sub(a, b)) /\ Val(Sub(a, b)) = va - vb)
    /\ Val(AbsDiff(a, b)) = (IF va >= vb THEN va - vb ELSE vb - va)
    /\ IsCanon(Mul(a, b)) /\ Val(Mul(a, b)) = va * vb
    /\ \A k \in Small : /\ Val(MulSmall(a, k)) = va * k /\ IsCanon(MulSmall(a, k))
                        /\ Val(AddSmall(a, k)) = va + k /\ IsCanon(AddSmall(a, k))
                        /\ Val(MulAddSmall(a, k, vb % 50)) = va * k + (vb % 50)
                        /\ (k > 0 => /\ Val(DivModSmall(a, k)[1]) = va \div k
                                     /\ IsCanon(DivModSmall(a, k)[1])
                                     /\ DivModSmall(a, k)[2] = va % k
                                     /\ ModSmall(a, k) = va % k)
    /\ (vb <= 6 /\ va <= 30 => Val(Pow(a, vb)) = IPow(va, vb) /\ IsCanon(Pow(a, vb)))
    /\ OfInt(va) = a
    /\ \A r \in {2, 3, 10} :
          LET ds == [i \in 1..Len(a) |-> a[i] % r] IN
          /\ Val(FromRadixMsb(ds, r)) = FoldLeft(LAMBDA acc, d: acc * r + d, 0, ds)
          /\ Val(FromRadixLsb(ds, r)) = FoldRight(LAMBDA d, acc: acc * r + d, ds, 0)
          /\ FromRadixMsbChunked(ds, r, 2, r * r) = FromRadixMsb(ds, r)
          /\ FromRadixMsbChunked(ds, r, 3, r * r * r) = FromRadixMsb(ds, r)

Bits ==
    Pow2Base =>
    /\ BitLen(a) = IntBitLen(va)
    /\ (va > 0 => TrailingZeros(a) = IntTz(va))
    /\ CountOnes(a) = IntOnes(va)
    /\ TrailingOnes(a) = IntTz(va + 1)
    /\ Val(NAnd(a, b)) = (va & vb) /\ IsCanon(NAnd(a, b))
    /\ Val(NOr(a, b)) = (va | vb) /\ IsCanon(NOr(a, b))
    /\ Val(NXor(a, b)) = (va ^^ vb) /\ IsCanon(NXor(a, b))
    /\ Val(NAndNot(a, b)) = va - (va & vb) /\ IsCanon(NAndNot(a, b))
    /\ \A n \in 0..(3 * DigitBits + 1) :
          /\ Val(Shl(a, n)) = va * 2 ^ n /\ IsCanon(Shl(a, n))
          /\ Val(Shr(a, n)) = va \div 2 ^ n /\ IsCanon(Shr(a, n))
          /\ Val(LowBits(a, n)) = va % 2 ^ n /\ IsCanon(LowBits(a, n))
          /\ Bit(a, n) = (va \div 2 ^ n) % 2
          /\ Val(PowerOfTwo(n)) = 2 ^ n
    /\ BitsMsb(a) = IntBitsMsb(va)
    /\ (vb > 0 => LET qr == DivMod(a, b) IN
                  /\ Val(qr[1]) = va \div vb /\ Val(qr[2]) = va % vb
                  /\ IsCanon(qr[1]) /\ IsCanon(qr[2]))

Inv == Arith /\ Bits
=============================================================================
