CONSTANTS Base = 4  MaxV = 40
INIT Init
NEXT Next
INVARIANT Inv
CHECK_DEADLOCK FALSE
