CONSTANTS Base = 16  R = 300  K = 11
INIT Init
NEXT Next
INVARIANT Inv
CHECK_DEADLOCK FALSE
