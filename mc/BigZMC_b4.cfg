CONSTANTS Base = 4  R = 70  K = 9
INIT Init
NEXT Next
INVARIANT Inv
CHECK_DEADLOCK FALSE
