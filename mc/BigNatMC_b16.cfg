CONSTANTS Base = 16  MaxLen = 2  Pow2Base = TRUE
INIT Init
NEXT Next
INVARIANT Inv
CHECK_DEADLOCK FALSE
