CONSTANTS Base = 2  MaxLen = 6  Pow2Base = TRUE
INIT Init
NEXT Next
INVARIANT Inv
CHECK_DEADLOCK FALSE
