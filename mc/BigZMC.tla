------------------------------- MODULE BigZMC -------------------------------
(* Cross-check of the signed L0 operators against TLC integers for all     *)
(* pairs in -R..R.                                                         *)
EXTENDS BigZ, TLC
CONSTANT R, K      \* K: number of low bits compared; 2^K > 2*R+2
VARIABLES x, y
Init == x \in (-R)..R /\ y \in (-R)..R
Next == UNCHANGED <<x, y>>

X == ZInt(x)
Y == ZInt(y)
IBit(v, i) == (v \div (2 ^ i)) % 2            \* floor semantics: two's complement bit
\* integer whose low K bits are f[0..K-1] and whose infinite sign extension is neg
OfBits(f(_), neg) == FoldLeft(LAMBDA acc, i: acc + f(i) * 2 ^ i, 0, [i \in 1..K |-> i - 1]) - (IF neg THEN 2 ^ K ELSE 0)
ISgn(v) == IF v < 0 THEN -1 ELSE IF v = 0 THEN 0 ELSE 1
IAbs(v) == IF v < 0 THEN -v ELSE v
TQ == ISgn(x) * ISgn(y) * (IAbs(x) \div IAbs(y))
TR == x - TQ * y
Good(z) == ZCanon(z)
RECURSIVE IPow(_, _)
IPow(b, e) == IF e = 0 THEN 1 ELSE b * IPow(b, e - 1)

Inv ==
    /\ Good(X) /\ ZVal(X) = x
    /\ Good(ZAdd(X, Y)) /\ ZVal(ZAdd(X, Y)) = x + y
    /\ Good(ZSub(X, Y)) /\ ZVal(ZSub(X, Y)) = x - y
    /\ Good(ZMul(X, Y)) /\ ZVal(ZMul(X, Y)) = x * y
    /\ ZVal(ZNeg(X)) = -x /\ ZVal(ZAbs(X)) = IAbs(x)
    /\ ZCmp(X, Y) = ISgn(x - y)
    /\ ZEq(X, Y) = (x = y)
    /\ (y >= 0 /\ y <= 5 /\ IAbs(x) <= 30 => ZVal(ZPow(X, y)) = IPow(x, y) /\ Good(ZPow(X, y)))
    /\ Good(ZAnd(X, Y)) /\ ZVal(ZAnd(X, Y)) = OfBits(LAMBDA i: IBit(x, i) * IBit(y, i), x < 0 /\ y < 0)
    /\ Good(ZOr(X, Y))  /\ ZVal(ZOr(X, Y))  = OfBits(LAMBDA i: IBit(x, i) + IBit(y, i) - IBit(x, i) * IBit(y, i), x < 0 \/ y < 0)
    /\ Good(ZXor(X, Y)) /\ ZVal(ZXor(X, Y)) = OfBits(LAMBDA i: (IBit(x, i) + IBit(y, i)) % 2, (x < 0) # (y < 0))
    /\ Good(ZNot(X)) /\ ZVal(ZNot(X)) = -x - 1
    /\ \A i \in 0..(K + 2) :
          /\ ZBit(X, i) = IBit(x, i)
          /\ Good(ZSetBit(X, i, TRUE)) /\ Good(ZSetBit(X, i, FALSE))
          /\ ZVal(ZSetBit(X, i, TRUE))  = x + (1 - IBit(x, i)) * 2 ^ i
          /\ ZVal(ZSetBit(X, i, FALSE)) = x - IBit(x, i) * 2 ^ i
          /\ Good(ZShl(X, i)) /\ ZVal(ZShl(X, i)) = x * 2 ^ i
          /\ Good(ZShr(X, i)) /\ ZVal(ZShr(X, i)) = x \div (2 ^ i)
    /\ (y # 0 =>
          LET FQ == x \div y  FR == x - (x \div y) * y       \* floor
              EQ == IF TR < 0 THEN (IF y > 0 THEN TQ - 1 ELSE TQ + 1) ELSE TQ
              ER == x - EQ * y
              CQ == -((-x) \div y)
          IN
          /\ IsTruncDivRem(X, Y, ZInt(TQ), ZInt(TR))
          /\ IsFloorDivMod(X, Y, ZInt(FQ), ZInt(FR))
          /\ IsEuclidDivRem(X, Y, ZInt(EQ), ZInt(ER))
          /\ IsCeilDivRem(X, Y, ZInt(CQ), ZInt(x - CQ * y))
          /\ ER >= 0 /\ ER < IAbs(y)
          /\ \A dq \in {-1, 1} :
                /\ ~IsTruncDivRem(X, Y, ZInt(TQ + dq), ZInt(x - (TQ + dq) * y))
                /\ ~IsFloorDivMod(X, Y, ZInt(FQ + dq), ZInt(x - (FQ + dq) * y))
                /\ ~IsEuclidDivRem(X, Y, ZInt(EQ + dq), ZInt(x - (EQ + dq) * y))
                /\ ~IsCeilDivRem(X, Y, ZInt(CQ + dq), ZInt(x - (CQ + dq) * y))
          /\ ZTruncDivRem(X, Y) = << ZInt(TQ), ZInt(TR) >>
          /\ ZFloorDivMod(X, Y) = << ZInt(FQ), ZInt(FR) >>
          /\ ZEuclidDivRem(X, Y) = << ZInt(EQ), ZInt(ER) >>
          /\ ZCeilDiv(X, Y) = ZInt(CQ))
=============================================================================
