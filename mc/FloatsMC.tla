------------------------------ MODULE FloatsMC ------------------------------
(* The float rules checked on a toy format (p = 3, ebits = 3, bias 3, largest finite value 14)   *)
(* against an independent definition: the nearest representable integer found by search, ties    *)
(* to the even significand, 15 and above to infinity; decoding checked for all 64 patterns.      *)
EXTENDS Floats, TLC
CONSTANT MaxV
VARIABLE v
Init == v \in 0..MaxV
Next == UNCHANGED v
P == 3
EB == 3
Repr == {1, 2, 3, 4, 5, 6, 7, 8, 10, 12, 14}
Abs(x) == IF x < 0 THEN -x ELSE x
IsTie(x) == \E r, s \in Repr : r # s /\ Abs(r - x) = Abs(s - x) /\ \A t \in Repr : Abs(r - x) <= Abs(t - x)
\* truncated value of a finite pattern (fr: 2 fraction bits, ex: 3 exponent bits), by cases on the exponent
PatTrunc(fr, ex) == IF ex = 0 THEN 0
                    ELSE IF ex >= 5 THEN (4 + fr) * (2 ^ (ex - 5))
                    ELSE (4 + fr) \div (2 ^ (5 - ex))
Inv ==
    LET bits == Val(FloatBitsOf(FALSE, OfInt(v), P, EB))
        ex   == (bits \div 4) % 8
        fr   == bits % 4
        val4 == (4 + fr) * (2 ^ (ex - 3))        \* four times the denoted value (ex >= 3 for integers >= 1)
    IN /\ (v = 0 => bits = 0)
       /\ (v >= 15 => ex = 7 /\ fr = 0)
       /\ (v > 0 /\ v < 15 =>
              /\ ex >= 3 /\ ex <= 6
              /\ \E r \in Repr : 4 * r = val4
              /\ \A s \in Repr : Abs(val4 - 4 * v) <= Abs(4 * s - 4 * v)
              /\ (IsTie(v) => (fr % 2) = 0))
       /\ Val(FloatBitsOf(TRUE, OfInt(v), P, EB)) = (IF v = 0 THEN 0 ELSE bits + 32)
       /\ \A b \in 0..63 :
             LET d == FloatTrunc(OfInt(b), P, EB)  bx == (b \div 4) % 8  bf == b % 4 IN
             /\ d.finite = (bx # 7)
             /\ d.neg = (b >= 32)
             /\ (d.finite => Val(d.mag) = PatTrunc(bf, bx))
=============================================================================
