CONSTANTS Base = 4  MaxLen = 4  Pow2Base = TRUE
INIT Init
NEXT Next
INVARIANT Inv
CHECK_DEADLOCK FALSE
