CONSTANTS Base = 3  MaxLen = 4  Pow2Base = FALSE
INIT Init
NEXT Next
INVARIANT Inv
CHECK_DEADLOCK FALSE
