CONSTANTS Base = 10  MaxLen = 2  Pow2Base = FALSE
INIT Init
NEXT Next
INVARIANT Inv
CHECK_DEADLOCK FALSE
