#!/usr/bin/env python3
"""Binding X: extract the x86_64 asm! block (and its Rust wrapper lines) of schoolbook_{add,sub}_assign_x86_64
from /repo's current source and emit it as a TLA+ module that algo/AsmBlock.tla interprets.

usage: extract_asm.py <source.rs> <function name> <ModuleName> <out dir>
Exit 0 and a module on success; exit 3 when the text is outside the interpreter's subset (cannot decide).
"""
import re, sys


class Unsupported(Exception):
    pass


def extract(src, fname):
    # the 64-bit body is the first definition of the function (inside cfg_64!)
    m = re.search(r"unsafe fn %s\s*\((.*?)\)\s*->\s*\(bool,\s*usize\)\s*\{" % re.escape(fname), src, re.S)
    if not m:
        raise Unsupported("function %s not found" % fname)
    params = [p.strip() for p in m.group(1).split(",") if p.strip()]
    pnames = [re.sub(r"^mut\s+", "", p.split(":")[0].strip()) for p in params]
    body_start = m.end()
    # body up to the matching brace
    depth, k = 1, body_start
    while depth and k < len(src):
        if src[k] == "{":
            depth += 1
        elif src[k] == "}":
            depth -= 1
        k += 1
    body = src[body_start:k - 1]
    am = re.search(r"asm!\s*\(", body)
    if not am:
        raise Unsupported("no asm! block")
    pre = body[:am.start()]
    # matching paren of asm!(
    depth, j = 1, am.end()
    in_str = False
    while depth and j < len(body):
        ch = body[j]
        if in_str:
            if ch == "\\":
                j += 1
            elif ch == '"':
                in_str = False
        else:
            if ch == '"':
                in_str = True
            elif ch == "(":
                depth += 1
            elif ch == ")":
                depth -= 1
        j += 1
    asm_text = body[am.end():j - 1]
    post = body[j:]
    # --- wrapper before: `size /= N;` `if size == 0 { return (false, 0); }` and `let mut idx = K;`
    wrap = {"div": 1, "early_return": False, "idx0": None, "size_param": None}
    dm = re.search(r"(\w+)\s*/=\s*(\d+)\s*;", pre)
    if dm:
        wrap["size_param"], wrap["div"] = dm.group(1), int(dm.group(2))
    if re.search(r"if\s+\w+\s*==\s*0\s*\{\s*return\s*\(\s*false\s*,\s*0\s*\)\s*;\s*\}", pre):
        wrap["early_return"] = True
    im = re.search(r"let\s+mut\s+idx\s*=\s*(\d+)\s*;", pre)
    if im:
        wrap["idx0"] = int(im.group(1))
    # any other statement in the wrapper is outside the subset
    leftovers = re.sub(r"(\w+)\s*/=\s*(\d+)\s*;|if\s+\w+\s*==\s*0\s*\{\s*return\s*\(\s*false\s*,\s*0\s*\)\s*;\s*\}|let\s+mut\s+\w+\s*(:\s*\w+)?\s*(=\s*\d+)?\s*;|//[^\n]*", "", pre).strip()
    if leftovers:
        raise Unsupported("wrapper statements outside the subset: %r" % leftovers[:200])
    rm = re.search(r"\(\s*(\w+)\s*>\s*0\s*,\s*(\w+)\s*\)\s*$", post.strip())
    if not rm:
        raise Unsupported("unrecognised return expression: %r" % post.strip()[:200])
    wrap["ret_carry"], wrap["ret_done"] = rm.group(1), rm.group(2)
    # --- asm text: strip comments, split top-level commas
    asm_text = re.sub(r"//[^\n]*", "", asm_text)
    items, cur, depth, in_str = [], "", 0, False
    for ch in asm_text:
        if in_str:
            cur += ch
            if ch == '"':
                in_str = False
            continue
        if ch == '"':
            in_str = True
            cur += ch
        elif ch in "([":
            depth += 1
            cur += ch
        elif ch in ")]":
            depth -= 1
            cur += ch
        elif ch == "," and depth == 0:
            if cur.strip():
                items.append(cur.strip())
            cur = ""
        else:
            cur += ch
    if cur.strip():
        items.append(cur.strip())
    templ, operands, options = [], {}, []
    for it in items:
        if it.startswith('"'):
            templ.append(it.strip('"'))
        elif it.startswith("options"):
            options = [o.strip() for o in it[it.index("(") + 1:it.rindex(")")].split(",") if o.strip()]
        else:
            om = re.match(r"(\w+)\s*=\s*(in|out|inout|lateout|inlateout)\s*\(\s*(\w+)\s*\)\s*(.*)$", it, re.S)
            if not om:
                raise Unsupported("operand not understood: %r" % it)
            operands[om.group(1)] = {"cls": om.group(2), "reg": om.group(3), "expr": om.group(4).strip()}
    return pnames, wrap, templ, operands, options


MEM = r"(?:qword ptr\s*)?\[\s*\{(\w+)\}\s*\+\s*8\s*\*\s*\{(\w+)\}\s*(?:\+\s*(\d+))?\s*\]"


def parse_instr(t):
    t = t.strip()
    m = re.match(r"^(\w+):$", t)
    if m:
        return {"op": "label", "name": m.group(1)}
    m = re.match(r"^mov\s+\{(\w+)\}\s*,\s*" + MEM + r"$", t)
    if m:
        return {"op": "load", "dst": m.group(1), "base": m.group(2), "idx": m.group(3), "off": int(m.group(4) or 0)}
    m = re.match(r"^mov\s+" + MEM + r"\s*,\s*\{(\w+)\}$", t)
    if m:
        return {"op": "store", "src": m.group(4), "base": m.group(1), "idx": m.group(2), "off": int(m.group(3) or 0)}
    m = re.match(r"^(adc|sbb|add|sub|mov|xor|cmp|test)\s+\{(\w+)\}\s*,\s*\{(\w+)\}$", t)
    if m:
        return {"op": m.group(1) if m.group(1) != "mov" else "movrr", "dst": m.group(2), "src": m.group(3)}
    m = re.match(r"^(inc|dec|setc)\s+\{(\w+)\}$", t)
    if m:
        return {"op": m.group(1), "dst": m.group(2)}
    m = re.match(r"^(jnz|jz|jmp|jne|je)\s+(\w+?)([bf])$", t)
    if m:
        op = {"jne": "jnz", "je": "jz"}.get(m.group(1), m.group(1))
        return {"op": op, "name": m.group(2), "dir": m.group(3)}
    m = re.match(r"^lea\s+\{(\w+)\}\s*,\s*\[\s*\{(\w+)\}\s*\+\s*(\d+)\s*\]$", t)
    if m:
        return {"op": "lea", "dst": m.group(1), "src": m.group(2), "off": int(m.group(3))}
    if t in ("clc", "stc", "nop"):
        return {"op": t}
    raise Unsupported("instruction outside the interpreter's subset: %r" % t)


def tla_str(s):
    return '"' + s + '"'


def emit(modname, fname, pnames, wrap, templ, operands, options):
    prog = [parse_instr(t) for t in templ]
    # resolve local labels to instruction positions (1-based index of the label line)
    lines = []
    for k, ins in enumerate(prog):
        if ins["op"] in ("jnz", "jz", "jmp"):
            cands = [j for j, x in enumerate(prog) if x["op"] == "label" and x["name"] == ins["name"]]
            cands = [j for j in cands if (j < k if ins["dir"] == "b" else j > k)]
            if not cands:
                raise Unsupported("label %s%s not found" % (ins["name"], ins["dir"]))
            tgt = max(cands) if ins["dir"] == "b" else min(cands)
            ins = {"op": ins["op"], "target": tgt + 1}
        rec = {"op": ins["op"], "dst": ins.get("dst", ""), "src": ins.get("src", ""), "base": ins.get("base", ""), "idx": ins.get("idx", ""),
               "off": ins.get("off", 0), "target": ins.get("target", 0)}
        lines.append("  [op |-> %s, dst |-> %s, src |-> %s, base |-> %s, idx |-> %s, off |-> %d, target |-> %d]" % (
            tla_str(rec["op"]), tla_str(rec["dst"]), tla_str(rec["src"]), tla_str(rec["base"]), tla_str(rec["idx"]), rec["off"], rec["target"]))
    regs = sorted(operands)
    ops = ",\n".join('  %s |-> [cls |-> %s, reg |-> %s, expr |-> %s]' % (r, tla_str(operands[r]["cls"]), tla_str(operands[r]["reg"]), tla_str(operands[r]["expr"])) for r in regs)
    out = []
    out.append("---- MODULE %s ----" % modname)
    out.append("\\* GENERATED by tools/extract_asm.py from %s; do not edit." % fname)
    out.append("Prog == <<\n" + ",\n".join(lines) + "\n>>")
    out.append("Operands == [\n" + ops + "\n]")
    out.append("RegNames == {" + ", ".join(tla_str(r) for r in regs) + "}")
    out.append("Params == <<" + ", ".join(tla_str(p) for p in pnames) + ">>")
    out.append("BlockDiv == %d" % wrap["div"])
    out.append("SizeParam == %s" % tla_str(wrap["size_param"] or ""))
    out.append("EarlyReturn == %s" % ("TRUE" if wrap["early_return"] else "FALSE"))
    out.append("Idx0 == %d" % (wrap["idx0"] if wrap["idx0"] is not None else -1))
    out.append("RetCarry == %s" % tla_str(wrap["ret_carry"]))
    out.append("RetDone == %s" % tla_str(wrap["ret_done"]))
    out.append("Options == {" + ", ".join(tla_str(o) for o in options) + "}")
    out.append("====")
    return "\n".join(out) + "\n", len(prog)


if __name__ == "__main__":
    srcpath, fname, modname, outdir = sys.argv[1:5]
    try:
        src = open(srcpath).read()
        parts = extract(src, fname)
        text, n = emit(modname, srcpath, *parts)
    except Unsupported as e:
        print("UNSUPPORTED:", e)
        sys.exit(3)
    open("%s/%s.tla" % (outdir, modname), "w").write(text)
    print("extracted %d instructions, %d operands from %s::%s" % (n, len(parts[3]), srcpath, fname))
