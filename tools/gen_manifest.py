#!/usr/bin/env python3
"""Regenerates MANIFEST.json from tools/props.py (claimed properties) and the property list."""
import json, os, sys
ROOT = os.path.dirname(os.path.dirname(os.path.abspath(__file__)))
sys.path.insert(0, os.path.join(ROOT, "tools"))
from props import PROPS, MANIFEST_TEXT, NOT_APPLICABLE, COMMON_NOTE, TECH  # noqa
ids = [json.loads(l)["id"] for l in open(os.path.join(ROOT, "properties.jsonl"))]
hooks = [l.strip() for l in os.popen("git -C /repo log --format=%H --grep='^verif hooks' ").read().split()]
man = {
    "version": 1,
    "setup_cmd": "./setup.sh",
    "hooks": {
        "guard": "num_bigint_verif",
        "enable": "RUSTFLAGS=--cfg num_bigint_verif (set in /verif/harness/.cargo/config.toml; the harness has a path dependency on /repo)",
        "baseline_off_cmd": "cd /repo && cargo test --workspace --no-fail-fast --offline",
        "source_commits": hooks,
        "add_only": True,
    },
    "engines": [
        {"name": "tlc-trace", "path": "spec/NumTrace.tla", "serves_properties": sorted(PROPS),
         "kind_free_text": "TLA+ trace specification (L1 rules over base-256 digit sequences) validating NDJSON traces recorded from the real library by harness/"},
        {"name": "tlc-models", "path": "mc/ and spec/algo/", "serves_properties": sorted(PROPS),
         "kind_free_text": "TLC model checking of the value algebra against integer arithmetic and of scaled transcriptions of the algorithms"},
    ],
    "checks": [],
    "not_applicable": [],
    "notes": "All checks: ./check <ID> --tier quick|thorough (python3 tools/vcheck.py). See DESIGN.md.",
}
for pid in ids:
    if pid in PROPS:
        t = MANIFEST_TEXT.get(pid) or {"level": "Recorded library calls of this property's operations are validated by TLC against the TLA+ trace specification (NumTrace/NumApi); the value algebra they rest on is model-checked against TLC integers.", "note": COMMON_NOTE, "technique": TECH}
        man["checks"].append({
            "property_id": pid,
            "quick_cmd": "./check %s --tier quick" % pid,
            "thorough_cmd": "./check %s --tier thorough" % pid,
            "evidence_file": "/verif/evidence/%s.json" % pid,
            "replay_cmd_template": "./check replay {path}",
            "engine": "tlc-trace",
            "level_claimed": {"category": "model_checking", "text": t["level"], "design_ref": t.get("ref", "DESIGN.md section 3 / " + pid)},
            "level_note": t["note"],
            "technique": t["technique"],
        })
    else:
        man["not_applicable"].append({"property_id": pid, "reason": NOT_APPLICABLE.get(pid, "check not built yet in this round; no claim is made")})
json.dump(man, open(os.path.join(ROOT, "MANIFEST.json"), "w"), indent=1)
print("claimed:", [c["property_id"] for c in man["checks"]])
