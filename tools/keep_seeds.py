#!/usr/bin/env python3
"""Copy confirmed seeded changes from /tmp/seeded into /verif/seeded/<id>/ with a meta.json."""
import json, os, re, shutil, subprocess
SRC, DST = "/tmp/seeded", "/verif/seeded"
conf = {}
for line in open(os.path.join(SRC, "confirm.log")):
    m = re.match(r"(C\d+_\d): demo_clean_rc=(\d+) demo_mutant_rc=(\d+) suite_passed=(\d+) suite_failed=(\d+)", line)
    if m:
        conf[m.group(1)] = {"demo_passes_clean": m.group(2) == "0", "demo_fails_with_change": m.group(3) != "0",
                            "suite_passed": int(m.group(4)), "suite_failed": int(m.group(5))}
NOTES = json.load(open("/verif/tools/seed_notes.json"))
os.makedirs(DST, exist_ok=True)
for sid in sorted(os.listdir(SRC)):
    d = os.path.join(SRC, sid)
    if not os.path.isdir(d) or sid not in conf:
        continue
    c = conf[sid]
    if not (c["demo_passes_clean"] and c["demo_fails_with_change"] and c["suite_failed"] == 0):
        print("NOT KEPT", sid, c)
        continue
    out = os.path.join(DST, sid)
    os.makedirs(out, exist_ok=True)
    # the patch as it applies to the current HEAD of /repo (rebased over the hook commits where needed)
    reb = os.path.join(d, "patch.rebased.diff")
    shutil.copy(reb if os.path.exists(reb) and os.path.getsize(reb) > 0 else os.path.join(d, "patch.diff"), os.path.join(out, "patch.diff"))
    shutil.copy(os.path.join(d, "patch.diff"), os.path.join(out, "patch.as_written.diff"))
    shutil.copy(os.path.join(d, "demo.rs"), os.path.join(out, "demo.rs"))
    meta = json.load(open(os.path.join(d, "meta.json")))
    n = NOTES.get(sid, {})
    meta_out = {
        "id": sid,
        "property": n.get("property", meta.get("property")),
        "written_for_property": meta.get("property"),
        "summary": meta.get("summary"),
        "needs": meta.get("needs"),
        "files": meta.get("files"),
        "what_i_ran": "tools/confirm_seed.sh in a scratch worktree of /repo HEAD (removed afterwards): demo on clean tree, demo with the patch, "
                      "full `cargo test --offline` with the patch" + (" (" + n["demo_cmd"] + ")" if "demo_cmd" in n else ""),
        "confirmed": c,
        "caught_by": n.get("caught_by", []),
        "first_missed": n.get("first_missed", False),
        "strengthening": n.get("strengthening", ""),
    }
    json.dump(meta_out, open(os.path.join(out, "meta.json"), "w"), indent=1)
    print("kept", sid)
