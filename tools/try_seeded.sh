#!/bin/sh
# usage: try_seeded.sh <patch.diff> <ID> [tier]  -- apply a seeded change to /repo, run the check, undo it.
# A patch made before a hook commit may conflict with probe lines; conflicts are resolved by
# taking the patch's side (probe lines inside the conflicting hunk are dropped for that run).
P="$(realpath "$1")"; ID="$2"; TIER="${3:-quick}"
R="${VERIF_REPO:-/repo}"
cd "$R" || exit 2
git diff --quiet || { echo "repo dirty"; exit 2; }
if ! git apply "$P" 2>/dev/null; then
  git apply --3way "$P" >/dev/null 2>&1
  for f in $(git diff --name-only --diff-filter=U); do
    python3 - "$f" <<'PY'
import sys,re
p=sys.argv[1]; s=open(p).read()
s=re.sub(r'<<<<<<< ours\n.*?=======\n(.*?)>>>>>>> theirs\n', r'\1', s, flags=re.S)
open(p,'w').write(s)
PY
  done
  git reset -q
fi
git diff --stat | tail -1
cd ${VERIF_ROOT:-/verif} && ./check "$ID" --tier "$TIER" > /tmp/try_seeded.$$ 2>&1
RC=$?
grep -c "^VIOLATION" /tmp/try_seeded.$$ | sed 's/^/violations: /'
grep "^VIOLATION" /tmp/try_seeded.$$ | head -${LINES_SHOWN:-3} | cut -c1-260
tail -2 /tmp/try_seeded.$$ | cut -c1-400
rm -f /tmp/try_seeded.$$
git -C "$R" checkout -- .
echo "exit=$RC"
exit $RC
