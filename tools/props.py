"""Per-property configuration of the checks: TLC model runs, drivers, ownership of trace rules."""

Q = ("quick",)
T = ("thorough",)
QT = ("quick", "thorough")


def mc(dir_, module, cfg, workers=4, heap="4g", tiers=QT, timeout=3000, expect=None):
    j = {"dir": dir_, "module": module, "cfg": cfg, "workers": workers, "heap": heap, "tiers": tiers, "timeout": timeout}
    if expect:
        j["expect"] = expect
    return j


def algo(module, cfg, workers=6, heap="6g", tiers=QT, expect=None):
    return mc("spec/algo", module, cfg, workers=workers, heap=heap, tiers=tiers, expect=expect)


def drv(driver, profile="debug", tiers=QT, shards=None, features=None, timeout=None, env=None):
    d = {"driver": driver, "profile": profile, "tiers": tiers}
    if shards:
        d["shards"] = shards
    if features is not None:
        d["features"] = features
    if timeout:
        d["timeout"] = timeout
    if env:
        d["env"] = env
    return d


L0_QUICK = [
    mc("mc", "BigNatMC.tla", "BigNatMC_b2.cfg", workers=4),
    mc("mc", "BigNatMC.tla", "BigNatMC_b3.cfg", workers=4),
    mc("mc", "BigZMC.tla", "BigZMC_b2.cfg", workers=4),
]
L0_THOROUGH = [
    mc("mc", "BigNatMC.tla", "BigNatMC_b4.cfg", workers=8, tiers=T),
    mc("mc", "BigNatMC.tla", "BigNatMC_b10.cfg", workers=4, tiers=T),
    mc("mc", "BigNatMC.tla", "BigNatMC_b16.cfg", workers=8, tiers=T),
    mc("mc", "BigZMC.tla", "BigZMC_b4.cfg", workers=8, tiers=T),
]

CANON = [algo("Canon.tla", "Canon_q.cfg", workers=4, heap="4g"),
         algo("Canon.tla", "Canon_cal_sub_no_normalize.cfg", workers=2, heap="2g", expect="violation"),
         algo("Canon.tla", "Canon_cal_from_biguint_zero_keeps_sign.cfg", workers=2, heap="2g", expect="violation"),
         algo("Canon.tla", "Canon_cal_and_no_truncate.cfg", workers=2, heap="2g", expect="violation"),
         algo("Canon.tla", "Canon_cal_add_always_push.cfg", workers=2, heap="2g", expect="violation"),
         algo("Canon.tla", "Canon_t2.cfg", workers=8, heap="6g", tiers=T),
         algo("Canon.tla", "Canon_t1.cfg", workers=14, heap="8g", tiers=T)]

SAMPLER = [algo("Sampler.tla", "Sampler_q.cfg", workers=6, heap="6g"),
           algo("Sampler.tla", "Sampler_cal_fold_back.cfg", workers=2, heap="3g", expect="violation"),
           algo("Sampler.tla", "Sampler_cal_ubound_zero_reflect.cfg", workers=2, heap="3g", expect="violation"),
           algo("Sampler.tla", "Sampler_cal_no_zero_retry.cfg", workers=2, heap="3g", expect="violation"),
           algo("Sampler.tla", "Sampler_cal_native_floor.cfg", workers=2, heap="3g", expect="violation"),
           algo("Sampler.tla", "Sampler_t1.cfg", workers=14, heap="12g", tiers=T)]

PROPS = {
    "C01": {
        "mc": L0_QUICK + L0_THOROUGH + [
            algo("AddSub.tla", "AddSub_q.cfg"), algo("AddSub.tla", "AddSub_cal_no_propagate.cfg", expect="violation"),
            algo("AddSub.tla", "AddSub_cal_no_push.cfg", expect="violation"), algo("AddSub.tla", "AddSub_cal_borrow_only.cfg", expect="violation"),
            algo("AddSub.tla", "AddSub_t1.cfg", workers=14, tiers=T), algo("AddSub.tla", "AddSub_t2.cfg", workers=14, heap="10g", tiers=T)],
        "drivers": [drv("matrix", "debug", shards={"quick": 8, "thorough": 14}, env={"HARNESS_SAMPLE": "2"}, tiers=Q), drv("matrix", "debug", tiers=T), drv("addsub", "debug"), drv("addsub", "release", tiers=T), drv("addsub", "debug", shards={"quick": 6, "thorough": 10}, env={"HARNESS_ROOMY": "1", "HARNESS_SAMPLE": "2"})],
    },
    "C02": {
        "mc": L0_QUICK + L0_THOROUGH + [
            algo("Mac3.tla", "Mac3_q.cfg", workers=10), algo("Mac3.tla", "Mac3_cal1.cfg", expect="violation"),
            algo("Mac3.tla", "Mac3_cal2.cfg", expect="violation"),
            algo("Mac3.tla", "Mac3_t1.cfg", workers=14, tiers=T), algo("Mac3.tla", "Mac3_t2.cfg", workers=14, heap="12g", tiers=T),
            algo("Mac3.tla", "Mac3_t3.cfg", workers=14, heap="12g", tiers=T)],
        "drivers": [drv("matrix", "debug", shards={"quick": 8, "thorough": 14}, env={"HARNESS_SAMPLE": "2"}, tiers=Q), drv("matrix", "debug", tiers=T), drv("mul", "debug"), drv("mul", "release", tiers=T), drv("mul", "debug", shards={"quick": 6, "thorough": 10}, env={"HARNESS_ROOMY": "1", "HARNESS_SAMPLE": "2"})],
    },
    "C03": {
        "mc": L0_QUICK + L0_THOROUGH + [
            algo("KnuthD.tla", "KnuthD_b4.cfg"), algo("KnuthD.tla", "KnuthD_b8s.cfg"),
            algo("KnuthD.tla", "KnuthD_b4_cal1.cfg", expect="violation"), algo("KnuthD.tla", "KnuthD_b4_cal2.cfg", expect="violation"),
            algo("KnuthD.tla", "KnuthD_b8.cfg", workers=14, heap="12g", tiers=T)],
        "drivers": [drv("matrix", "debug", shards={"quick": 8, "thorough": 14}, env={"HARNESS_SAMPLE": "2"}, tiers=Q), drv("matrix", "debug", tiers=T), drv("div", "debug"), drv("div", "release", tiers=T), drv("div", "debug", shards={"quick": 6, "thorough": 10}, env={"HARNESS_ROOMY": "1", "HARNESS_SAMPLE": "3"})],
    },
    "C07": {
        "mc": L0_QUICK + L0_THOROUGH + [
            algo("BitOps.tla", "BitOps_q.cfg"), algo("BitOps.tla", "BitOps_cal1.cfg", expect="violation"),
            algo("BitOps.tla", "BitOps_t.cfg", workers=14, tiers=T),
            algo("ShiftBits.tla", "ShiftBits_q.cfg"), algo("ShiftBits.tla", "ShiftBits_cal1.cfg", expect="violation"),
            algo("ShiftBits.tla", "ShiftBits_cal2.cfg", expect="violation"), algo("ShiftBits.tla", "ShiftBits_t.cfg", workers=14, tiers=T)],
        "drivers": [drv("matrix", "debug", shards={"quick": 8, "thorough": 14}, env={"HARNESS_SAMPLE": "2"}, tiers=Q), drv("matrix", "debug", tiers=T), drv("bits", "debug"), drv("bits", "release", tiers=T), drv("bits", "debug", shards={"quick": 6, "thorough": 10}, env={"HARNESS_ROOMY": "1", "HARNESS_SAMPLE": "3"})],
    },
    "C09": {
        "mc": L0_QUICK + L0_THOROUGH + [algo("SmallAlgos.tla", "SmallAlgos_q.cfg"), algo("SmallAlgos.tla", "SmallAlgos_cal_signed_no_sign_test.cfg", expect="violation")],
        "drivers": [drv("bytes", "debug"), drv("bytes", "release", tiers=T)],
    },
    "C06": {
        "mc": L0_QUICK + L0_THOROUGH + [
            algo("Radix.tla", "Radix_q.cfg"), algo("Radix.tla", "Radix_cal1.cfg", expect="violation"),
            algo("Radix.tla", "Radix_cal2.cfg", expect="violation"), algo("Radix.tla", "Radix_t.cfg", workers=14, heap="10g", tiers=T)],
        "drivers": [drv("text", "debug"), drv("text", "release", tiers=T)],
    },
    "C05": {
        "mc": L0_QUICK + L0_THOROUGH + [
            algo("Monty.tla", "Monty_q.cfg", workers=8), algo("Monty.tla", "Monty_cal_drop_cx.cfg", expect="violation"),
            algo("Monty.tla", "Monty_cal_skip_sub.cfg", expect="violation"), algo("Monty.tla", "Monty_cal_rest_from_one.cfg", expect="violation"),
            algo("Monty.tla", "Monty_t.cfg", workers=14, heap="10g", tiers=T),
            algo("ModInv.tla", "ModInv_q.cfg", workers=4), algo("ModInv.tla", "ModInv_cal_skip_reduce_short.cfg", expect="violation"),
            algo("ModInv.tla", "ModInv_cal_le_instead_of_lt.cfg", expect="violation"), algo("ModInv.tla", "ModInv_cal_reflect_zero.cfg", expect="violation"),
            algo("ModInv.tla", "ModInv_t.cfg", workers=14, heap="8g", tiers=T)],
        "drivers": [drv("modpow", "debug"), drv("modpow", "release", tiers=T)],
    },
    "C08": {
        "mc": L0_QUICK + L0_THOROUGH + [mc("mc", "FloatsMC.tla", "FloatsMC.cfg", workers=2),
               algo("FloatPath.tla", "FloatPath_q.cfg"), algo("FloatPath.tla", "FloatPath_cal1.cfg", expect="violation"),
               algo("FloatPath.tla", "FloatPath_t.cfg", workers=14, tiers=T)],
        "drivers": [drv("conv", "debug"), drv("conv", "release", tiers=T)],
    },
    "C11": {
        "mc": L0_QUICK + L0_THOROUGH + [
            algo("Roots.tla", "Roots_q.cfg"), algo("Roots.tla", "Roots_cal1.cfg", expect="violation"),
            algo("Roots.tla", "Roots_cal2.cfg", expect="violation"), algo("Roots.tla", "Roots_t.cfg", workers=14, heap="10g", tiers=T)],
        "drivers": [drv("roots", "debug"), drv("roots", "debug", features=["rand", "serde"]), drv("roots", "release", tiers=T)],
    },
    "C12": {
        "mc": L0_QUICK + L0_THOROUGH + [algo("SmallAlgos.tla", "SmallAlgos_q.cfg"), algo("SmallAlgos.tla", "SmallAlgos_cal_pow_no_exit.cfg", expect="violation")],
        "drivers": [drv("pow", "debug"), drv("pow", "release", tiers=T)],
    },
    "C13": {
        "mc": L0_QUICK + L0_THOROUGH + [algo("SmallAlgos.tla", "SmallAlgos_q.cfg"), algo("SmallAlgos.tla", "SmallAlgos_cal_gcd_max_shift.cfg", expect="violation")],
        "drivers": [drv("matrix", "debug", shards={"quick": 8, "thorough": 14}, env={"HARNESS_SAMPLE": "2"}, tiers=Q), drv("matrix", "debug", tiers=T), drv("gcd", "debug"), drv("gcd", "release", tiers=T)],
    },
    "C19": {
        "mc": L0_QUICK + L0_THOROUGH + CANON[:3],
        "drivers": [drv("sign", "debug"), drv("sign", "release", tiers=T),
                    drv("sign", "debug", shards={"quick": 6, "thorough": 10}, env={"HARNESS_ROOMY": "1"})],
    },
    "C17": {
        "mc": L0_QUICK + L0_THOROUGH + [algo("SmallAlgos.tla", "SmallAlgos_q.cfg"), algo("SmallAlgos.tla", "SmallAlgos_cal_ser_always_hi.cfg", expect="violation")],
        "drivers": [drv("serde", "debug"), drv("serde", "release", tiers=T)],
    },
    "C18": {
        "mc": L0_QUICK + L0_THOROUGH + [algo("SmallAlgos.tla", "SmallAlgos_q.cfg"), algo("SmallAlgos.tla", "SmallAlgos_cal_ser_always_hi.cfg", expect="violation")] + SAMPLER,
        "drivers": [drv("rand", "debug"), drv("rand", "release", tiers=T)],
    },
    "C04": {
        "mc": L0_QUICK + L0_THOROUGH + CANON,
        "drivers": [drv("matrix", "debug", shards={"quick": 8, "thorough": 14}, env={"HARNESS_SAMPLE": "2"}, tiers=Q), drv("matrix", "debug", tiers=T), drv("history", "debug"), drv("history", "release", tiers=T), drv("matrix", "debug", shards={"quick": 6, "thorough": 10}, env={"HARNESS_ROOMY": "1", "HARNESS_SAMPLE": "3"}), drv("history", "debug", shards={"quick": 6, "thorough": 10}, env={"HARNESS_ROOMY": "1", "HARNESS_SAMPLE": "2"}),
                    drv("origins", "debug", shards={"quick": 10, "thorough": 14}),
                    # a cross-section of every other family: the representation rule is judged on every register any call writes
                    *[drv(d, "debug", shards={"quick": 2, "thorough": 6}, env={"HARNESS_SAMPLE": "4"}, tiers=Q) for d in
                      ("addsub", "mul", "div", "bits", "text", "conv", "roots", "pow", "gcd", "forms", "bytes", "sign", "modpow")],
                    *[drv(d, "debug", shards={"quick": 2, "thorough": 6}, env={"HARNESS_SAMPLE": "2"}, tiers=T) for d in
                      ("addsub", "mul", "div", "bits", "text", "conv", "roots", "pow", "gcd", "forms", "bytes", "sign", "modpow")],
                    drv("arb", "debug", features=["std", "rand", "serde", "quickcheck", "arbitrary"], shards={"quick": 4, "thorough": 8})],
        "owns_reasons": ("noncanon",),
    },
    "C20": {
        "mc": L0_QUICK,
        "drivers": [drv("cost", "release", shards={"quick": 1, "thorough": 1})],
    },
    "C14": {
        "mc": L0_QUICK,
        "drivers": [drv("failures", "debug"), drv("failures", "release")]
                   + [drv(d, "release", shards={"quick": 2, "thorough": 6}, env={"HARNESS_SAMPLE": n}) for d, n in
                      # (the sample is denser for the small drivers; VERIF_SEED moves it)
                      (("addsub", "6"), ("mul", "4"), ("div", "6"), ("bits", "8"), ("text", "4"), ("conv", "4"), ("roots", "2"), ("pow", "2"), ("gcd", "3"),
                       ("forms", "8"), ("bytes", "3"), ("sign", "1"))]
                   + [drv("modpow", "release", shards={"quick": 6, "thorough": 14}, env={"HARNESS_SAMPLE": "2"}),
                      drv("history", "release", shards={"quick": 6, "thorough": 14}, env={"HARNESS_SAMPLE": "2"})]
                   + [drv(d, "debug", tiers=T, shards={"thorough": 6}, env={"HARNESS_SAMPLE": "3"}) for d in
                      ("addsub", "mul", "div", "bits", "text", "conv", "modpow", "roots", "pow", "gcd", "forms", "bytes", "history", "sign")],
        "owns_reasons": ("unexpected_panic", "missing_failure", "unexpected_none", "crash"),
    },
    "C15": {
        "mc": L0_QUICK + [SAMPLER[0], SAMPLER[4]],
        "drivers": [drv("addsub", "debug", env={"HARNESS_GUARD": "end"}), drv("addsub", "release", env={"HARNESS_GUARD": "end"}),
                    drv("addsub", "release", env={"HARNESS_DIRTY": "1"}),
                    drv("addsub", "release", tiers=T, env={"HARNESS_GUARD": "start"}),
                    drv("text", "release", env={"HARNESS_GUARD": "end", "HARNESS_SAMPLE": "3"}),
                    drv("rand", "release", env={"HARNESS_GUARD": "end"}),
                    drv("div", "release", env={"HARNESS_GUARD": "end"}),
                    drv("mul", "release", tiers=T, env={"HARNESS_GUARD": "end"}),
                    drv("bytes", "release", tiers=T, env={"HARNESS_GUARD": "end"})],
        "owns_reasons": ("crash", "srcmod"),
    },
    "C10": {
        "mc": L0_QUICK + L0_THOROUGH,
        "drivers": [drv("matrix", "debug"), drv("forms", "debug"), drv("forms", "release", tiers=T), drv("forms", "debug", shards={"quick": 6, "thorough": 10}, env={"HARNESS_ROOMY": "1", "HARNESS_SAMPLE": "3"}), drv("matrix", "debug", shards={"quick": 6, "thorough": 10}, env={"HARNESS_ROOMY": "1", "HARNESS_SAMPLE": "3"})],
    },
    "C16": {
        "mc": [],
        "drivers": [],
        "custom": None,   # set below (tools/c16.py)
    },
}

# which properties own the value rule of an operation (a BAD event is a violation only for an owner)
OP_OWNERS = {}


def own(pid, ops):
    for o in ops.split():
        OP_OWNERS.setdefault(o, set()).add(pid)


own("C01", "add sub checked_add checked_sub add_sc sub_sc rsub_sc inc dec")
own("C02", "mul checked_mul mul_sc")
own("C03", "div rem div_rem checked_div div_floor mod_floor div_mod_floor div_ceil div_euclid rem_euclid div_rem_euclid checked_div_euclid checked_rem_euclid checked_div_rem_euclid is_multiple_of")
own("C07", "bitand bitor bitxor not shl shr bit set_bit bits trailing_zeros trailing_ones count_ones")
own("C05", "modpow modinv")
own("C15", "to_str_radix fmt gen_biguint")
own("C06", "to_str_radix fmt to_radix_le to_radix_be parse from_radix_le from_radix_be")
own("C08", "to_prim to_prim_val to_biguint to_biguint_val to_bigint to_f64 to_f32 from_prim from_float")
own("C09", "from_bytes_le from_bytes_be new_u32 from_signed_bytes_le from_signed_bytes_be to_bytes_le to_bytes_be to_u32_digits to_u64_digits to_signed_bytes_le to_signed_bytes_be iter_collect iter")
own("C10", "add sub mul div rem rem_prim sum product bitand bitor bitxor shl shr pow checked_add checked_sub checked_mul checked_div div_rem div_floor mod_floor div_mod_floor div_ceil div_euclid rem_euclid div_rem_euclid checked_div_euclid checked_rem_euclid checked_div_rem_euclid")
own("C11", "sqrt cbrt nth_root")
own("C12", "pow pow_big")
own("C13", "gcd lcm gcd_lcm extended_gcd extended_gcd_lcm next_multiple_of prev_multiple_of is_multiple_of is_even is_odd inc dec")
own("C17", "serialize deserialize serde_roundtrip")
own("C18", "gen_biguint gen_bigint gen_biguint_below gen_range")
own("C20", "cost_table cost_sparse")
own("C19", "from_biguint clone neg abs signum is_positive is_negative sign magnitude into_parts abs_sub is_zero is_one set_zero set_one const sign_neg sign_mul to_biguint to_bigint")
own("C04", "clone obs arbitrary")

# properties whose statement itself names a must-panic case (others leave missing panics to C14)
FAILURE_STATED = {"C01", "C03", "C05", "C07", "C11", "C14", "C18"}

# reasons owned by cross-cutting properties, whatever the operation
REASON_OWNERS = {
    "noncanon": {"C04"},
    "srcmod": {"C15"},
    "nonascii": {"C15"},
    "crash": {"C14", "C15"},
    "unexpected_panic": {"C14"},
    "missing_failure": {"C14"},
    "unexpected_none": {"C14"},
}

COMMON_NOTE = ("Trusted: TLC/SANY with the CommunityModules Java overrides; the harness projection raw digits -> bytes; python orchestration. "
               "The verdict covers the behaviours recorded in this run (listed in the evidence), not all inputs; L2 model results hold for the scaled constants.")
TECH = "TLA+ trace validation with TLC (recorded library calls checked against NumTrace/NumApi) + TLC model checking of the value algebra"

def _t(level, tech=None):
    return {"level": level, "note": COMMON_NOTE, "technique": tech or TECH}


MANIFEST_TEXT = {
    "C01": _t("Recorded add/sub calls (every operand form, length pairs 0..17/23 around the 5-digit block, carry/borrow chains, four sign pairs) are "
              "validated by TLC against NumTrace; the asm! blocks are extracted from the source and model-checked instruction by instruction "
              "(AsmBlock: every memory content for sizes 0..8 at base 2, Contract = exact partial sum/difference with returned carry); the Rust "
              "wrapper code is transcribed (AddSub) and checked for all operands up to 7 digits with three calibration mutants. A cross-family driver applies every structured operand shape to every binary operation. NumMachine (the library as a register machine over TLC integers) supplies behaviours to execute on the code: random walks from TLC simulation and every single step from every small register file (exhaustive), compared register by register after each step.",
              "TLA+ trace validation (TLC) + TLC model checking of the extracted asm! program and of the AddSub transcription"),
    "C02": _t("Recorded products over every regime boundary (31..34, 63..66, 128/129, 256..258 digits; longer operand n, n+1, 1.25-2x, 2n+-1, 3n; "
              "all-ones, sparse, hierarchical zero/ones structure, squares, zero digits) are validated by TLC with an exact byte-level product; "
              "the mac3 transcription (all four regimes, scaled thresholds) is model-checked on 175 k operand pairs with two calibration mutants. A cross-family driver applies every structured operand shape to every binary operation. NumMachine (the library as a register machine over TLC integers) supplies behaviours to execute on the code: random walks from TLC simulation and every single step from every small register file (exhaustive), compared register by register after each step."),
    "C03": _t("Recorded calls of every division API (26 forms x two types, both duplicated pre-check paths, landmark operands reaching a0==b0, "
              "refinement and add-back, every normalisation shift, zero divisors) are validated by TLC through the relational definition of each "
              "convention; KnuthD transcription model-checked on all operands (base 4 5/3 digits, base 8) with calibration mutants; NumMachine "
              "behaviours replayed on the code. A cross-family driver applies every structured operand shape to every binary operation. NumMachine (the library as a register machine over TLC integers) supplies behaviours to execute on the code: random walks from TLC simulation and every single step from every small register file (exhaustive), compared register by register after each step."),
    "C04": _t("Histories of in-place operations on long-lived registers with pairwise Eq/Ord/Hash observations and decimal twins are validated by "
              "TLC (canonical form of every written register judged independently of its value); NumMachine behaviours (TLC simulation) are "
              "replayed on the code with a canonical-form test after every step. A cross-family driver applies every structured operand shape to every binary operation. The representation discipline itself (raw digit-loop result plus the fix-up each site applies: normalize, conditional carry push, truncate, from_biguint sign repair) is a TLA+ state machine (Canon) model-checked over all register pairs of <= 5 binary digits with four calibration mutants: canonical form, structural equality = value equality, length-first ordering = integer ordering."),
    "C05": _t("Recorded modpow/modinv calls (odd and even moduli, top digit 1 / 2^63 / all ones, bases shorter/equal/longer/multiples of the modulus, "
              "zero windows, multi-digit exponents, all signs, +-1, zero modulus, negative exponent) are validated by TLC: every modular reduction "
              "is re-checked from a quotient witness; Monty/plain_modpow transcription model-checked on 35 k triples with three calibration mutants; the modinv loop (unsigned extended Euclid, lifted first iteration, sign reflection of the BigInt wrapper) is a TLA+ state machine checked for every a <= 70, m <= 60 and sign pair: no unsigned underflow, coefficients reduced, Bezout relation, answer, termination, three calibration mutants. NumMachine (the library as a register machine over TLC integers) supplies behaviours to execute on the code: random walks from TLC simulation and every single step from every small register file (exhaustive), compared register by register after each step."),
    "C06": _t("Recorded to_str_radix / formatter / to_radix / parse / from_radix calls (all radices 2..36 and 2..256, 63/64/65/130 digits, powers of "
              "the radix, up to 140 leading zeros, the parser language over a small alphabet exhaustively to length 3, formatter flag matrix) are "
              "validated by TLC against Text.tla (unique digit string, accepted language, core::fmt padding); Radix transcription model-checked. NumMachine (the library as a register machine over TLC integers) supplies behaviours to execute on the code: random walks from TLC simulation and every single step from every small register file (exhaustive), compared register by register after each step."),
    "C07": _t("Recorded bit operations (nine sign pairs, powers of two and long zero/one runs, every shift type incl. negative and maximal amounts, "
              "bit indices around the lowest set bit and beyond the top) validated by TLC against two's-complement definitions; BitOps (nine "
              "routines with running carries and debug assertions) and ShiftBits (shl2/shr2, rounding, set_negative_bit) model-checked. A cross-family driver applies every structured operand shape to every binary operation. NumMachine (the library as a register machine over TLC integers) supplies behaviours to execute on the code: random walks from TLC simulation and every single step from every small register file (exhaustive), compared register by register after each step."),
    "C08": _t("Recorded primitive conversions (every type's MIN/MAX +-2, 2^64/2^128 +-2, by-value errors returning the original) and float "
              "conversions (tie / just-above / just-below patterns with the deciding bit 1..300 bits down, overflow edges, NaN/inf/subnormals) are "
              "validated by TLC against Floats.tla (itself checked on a toy format); FloatPath model shows the window+sticky path equals RNE. NumMachine (the library as a register machine over TLC integers) supplies behaviours to execute on the code: random walks from TLC simulation and every single step from every small register file (exhaustive), compared register by register after each step."),
    "C09": _t("Recorded byte/word exports and imports (2^(8k-1)+-1, padding 0..9 bytes of 0x00/0xff, odd word counts) and iterator sessions are "
              "validated by TLC (iterator = deque); the U32Digits transcription refines the deque for every call history (DigitIter), and all "
              "81 000 (810 000) TLC-generated call histories are executed on the real iterator. NumMachine (the library as a register machine over TLC integers) supplies behaviours to execute on the code: random walks from TLC simulation and every single step from every small register file (exhaustive), compared register by register after each step."),
    "C10": _t("Every scalar operator form is called by name (5 operators x 10 forms x 12 scalar types x 2 big types, scalar %= big, Sum/Product, "
              "value/reference forms on structured operands) and validated by TLC with the rule of the canonical operation; NumMachine behaviours "
              "with rotating forms replayed on the code. A cross-family driver applies every structured operand shape to every binary operation."),
    "C11": _t("Recorded sqrt/cbrt/nth_root calls (below 2^64, up to and beyond 2^1024, perfect powers +-1, n up to u32::MAX, negatives, n = 0) in "
              "the std and the no_std build are validated by TLC (r^n <= x < (r+1)^n); the fixpoint iteration is model-checked from every initial "
              "guess (safety and termination) with two calibration mutants. NumMachine (the library as a register machine over TLC integers) supplies behaviours to execute on the code: random walks from TLC simulation and every single step from every small register file (exhaustive), compared register by register after each step."),
    "C12": _t("Recorded pow calls (every exponent type and form, exponents 0..70/300 and bit patterns, astronomical exponents with bases 0, +-1, "
              "BigUint exponents at the u64/u128 edges) validated by TLC; exponent loop and powsign transcription model-checked. NumMachine (the library as a register machine over TLC integers) supplies behaviours to execute on the code: random walks from TLC simulation and every single step from every small register file (exhaustive), compared register by register after each step."),
    "C13": _t("Recorded gcd/lcm/extended_gcd/multiple-of/parity/inc/dec calls validated by TLC from certificates (cofactors and a Bezout pair) it "
              "re-checks by multiplication; Stein transcription model-checked for all pairs <= 130; NumMachine behaviours replayed. A cross-family driver applies every structured operand shape to every binary operation. NumMachine (the library as a register machine over TLC integers) supplies behaviours to execute on the code: random walks from TLC simulation and every single step from every small register file (exhaustive), compared register by register after each step."),
    "C14": _t("The matrix of documented failure cases and their neighbours in debug and release, plus a sampled cross-section of every other "
              "driver in release, validated by TLC: outcome = panic exactly when Fails, checked_* = None exactly then and never a panic, every "
              "recording shard terminates (a crash or time-out becomes a rejected `crashed` event). NumMachine (the library as a register machine over TLC integers) supplies behaviours to execute on the code: random walks from TLC simulation and every single step from every small register file (exhaustive), compared register by register after each step."),
    "C15": _t("The extracted asm! programs are model-checked for memory safety (every load/store inside its array, stores only to lhs, rhs "
              "untouched) for every memory content of the scaled instance; add/sub, text, sampling and division drivers run under a guard-page "
              "allocator with operands that exactly fill their allocation (out-of-bounds access = SIGSEGV = rejected trace), borrowed operands "
              "are compared before/after every call, returned text is checked against the radix alphabet.",
              "TLC model checking of the extracted asm! program + TLA+ trace validation of guard-page runs"),
    "C16": _t("TLC enumerates the configuration space (Config.tla); each configuration is built with cargo on /repo itself, a deterministic "
              "transcript is recorded for std/no_std x debug/release (thorough: all 40) and the outcomes are replayed against Config.tla (all "
              "built, all digests equal); each distinct transcript is validated by NumTrace.",
              "TLC enumeration and trace validation over the feature-configuration model + cargo builds"),
    "C17": _t("Tokens emitted by a recording Serializer and values produced by a token-replay Deserializer (four size-hint modes, trailing "
              "zeros, every sign byte) validated by TLC: elements = base-2^32 digits, declared length = element count, sign in {-1,0,1}."),
    "C18": _t("Sampler calls on scripted RNG streams (zeros, ones, counter, reject-k-then-accept ...) validated by TLC: the result is the stream "
              "function of the words actually consumed (first candidate below the bound, top word shifted down), empty ranges panic. src/bigrand.rs is also a TLA+ state machine (Sampler: word-by-word fill through the u32 view of the u64 buffer, top-word shift, rejection loop, zero/sign retry, the three arms of gen_bigint_range, Uniform and its inclusive constructor) model-checked on every request and every stream of 5 two-bit words (1.2 M states): documented interval, agreement of value and words consumed with that stream function, buffer discipline; TLC also evaluates that the stream function covers every value of the interval, each by equally many one-candidate streams; four calibration mutants."),
    "C19": _t("Recorded sign/negation/identity helper calls incl. inconsistent (Sign, magnitude) requests and trait-path conversions validated by "
              "TLC; NumMachine behaviours replayed on the code; the from_biguint / NoSign repair rules are part of the Canon state machine model-checked with calibration mutants."),
    "C20": _t("The multiply-accumulate work counter for dense operands (n = 256..16384 balanced; n x 2n-1, 2n, 64n unbalanced) is validated by "
              "TLC against the inequalities of the statement; the CostModel recurrence is checked by TLC and compared with the measurement."),
}
NOT_APPLICABLE = {}

import c16 as _c16  # noqa: E402
import asmx as _asmx  # noqa: E402
PROPS["C16"]["custom"] = _c16.run
PROPS["C15"]["custom"] = _asmx.run
import rbind as _rbind  # noqa: E402
PROPS["C01"]["custom"] = _rbind.chain(_asmx.run, _rbind.machine_step)
PROPS["C09"]["custom"] = _rbind.chain(_rbind.iter_step, _rbind.machine_step)
for _p in ("C04", "C19", "C03", "C07", "C13", "C02", "C05", "C06", "C08", "C11", "C12"):
    PROPS[_p]["custom"] = _rbind.machine_step
PROPS["C14"]["custom"] = _rbind.chain(_rbind.machine_step, _rbind.iter_step)
PROPS["C10"]["custom"] = _rbind.chain(_asmx.forms_step, _rbind.machine_step)
import costdrift as _costdrift  # noqa: E402
PROPS["C20"]["custom"] = _costdrift.run
