"""Per-property configuration of the checks: TLC model runs, drivers, ownership of trace rules."""

Q = ("quick",)
T = ("thorough",)
QT = ("quick", "thorough")


def mc(dir_, module, cfg, workers=4, heap="4g", tiers=QT, timeout=3000, expect=None):
    j = {"dir": dir_, "module": module, "cfg": cfg, "workers": workers, "heap": heap, "tiers": tiers, "timeout": timeout}
    if expect:
        j["expect"] = expect
    return j


def algo(module, cfg, workers=6, heap="6g", tiers=QT, expect=None):
    return mc("spec/algo", module, cfg, workers=workers, heap=heap, tiers=tiers, expect=expect)


def drv(driver, profile="debug", tiers=QT, shards=None, features=None, timeout=None, env=None):
    d = {"driver": driver, "profile": profile, "tiers": tiers}
    if shards:
        d["shards"] = shards
    if features is not None:
        d["features"] = features
    if timeout:
        d["timeout"] = timeout
    if env:
        d["env"] = env
    return d


L0_QUICK = [
    mc("mc", "BigNatMC.tla", "BigNatMC_b2.cfg", workers=4),
    mc("mc", "BigNatMC.tla", "BigNatMC_b3.cfg", workers=4),
    mc("mc", "BigZMC.tla", "BigZMC_b2.cfg", workers=4),
]
L0_THOROUGH = [
    mc("mc", "BigNatMC.tla", "BigNatMC_b4.cfg", workers=8, tiers=T),
    mc("mc", "BigNatMC.tla", "BigNatMC_b10.cfg", workers=4, tiers=T),
    mc("mc", "BigNatMC.tla", "BigNatMC_b16.cfg", workers=8, tiers=T),
    mc("mc", "BigZMC.tla", "BigZMC_b4.cfg", workers=8, tiers=T),
]

PROPS = {
    "C01": {
        "mc": L0_QUICK + L0_THOROUGH + [
            algo("AddSub.tla", "AddSub_q.cfg"), algo("AddSub.tla", "AddSub_cal_no_propagate.cfg", expect="violation"),
            algo("AddSub.tla", "AddSub_cal_no_push.cfg", expect="violation"), algo("AddSub.tla", "AddSub_cal_borrow_only.cfg", expect="violation"),
            algo("AddSub.tla", "AddSub_t1.cfg", workers=14, tiers=T), algo("AddSub.tla", "AddSub_t2.cfg", workers=14, heap="10g", tiers=T)],
        "drivers": [drv("addsub", "debug"), drv("addsub", "release", tiers=T)],
    },
    "C02": {
        "mc": L0_QUICK + L0_THOROUGH + [
            algo("Mac3.tla", "Mac3_q.cfg", workers=10), algo("Mac3.tla", "Mac3_cal1.cfg", expect="violation"),
            algo("Mac3.tla", "Mac3_cal2.cfg", expect="violation"),
            algo("Mac3.tla", "Mac3_t1.cfg", workers=14, tiers=T), algo("Mac3.tla", "Mac3_t2.cfg", workers=14, heap="12g", tiers=T),
            algo("Mac3.tla", "Mac3_t3.cfg", workers=14, heap="12g", tiers=T)],
        "drivers": [drv("mul", "debug"), drv("mul", "release", tiers=T)],
    },
    "C03": {
        "mc": L0_QUICK + L0_THOROUGH + [
            algo("KnuthD.tla", "KnuthD_b4.cfg"), algo("KnuthD.tla", "KnuthD_b8s.cfg"),
            algo("KnuthD.tla", "KnuthD_b4_cal1.cfg", expect="violation"), algo("KnuthD.tla", "KnuthD_b4_cal2.cfg", expect="violation"),
            algo("KnuthD.tla", "KnuthD_b8.cfg", workers=14, heap="12g", tiers=T)],
        "drivers": [drv("div", "debug"), drv("div", "release", tiers=T)],
    },
    "C07": {
        "mc": L0_QUICK + L0_THOROUGH + [
            algo("BitOps.tla", "BitOps_q.cfg"), algo("BitOps.tla", "BitOps_cal1.cfg", expect="violation"),
            algo("BitOps.tla", "BitOps_t.cfg", workers=14, tiers=T),
            algo("ShiftBits.tla", "ShiftBits_q.cfg"), algo("ShiftBits.tla", "ShiftBits_cal1.cfg", expect="violation"),
            algo("ShiftBits.tla", "ShiftBits_cal2.cfg", expect="violation"), algo("ShiftBits.tla", "ShiftBits_t.cfg", workers=14, tiers=T)],
        "drivers": [drv("bits", "debug"), drv("bits", "release", tiers=T)],
    },
    "C09": {
        "mc": L0_QUICK + L0_THOROUGH + [algo("SmallAlgos.tla", "SmallAlgos_q.cfg"), algo("SmallAlgos.tla", "SmallAlgos_cal_signed_no_sign_test.cfg", expect="violation")],
        "drivers": [drv("bytes", "debug"), drv("bytes", "release", tiers=T)],
    },
    "C06": {
        "mc": L0_QUICK + L0_THOROUGH + [
            algo("Radix.tla", "Radix_q.cfg"), algo("Radix.tla", "Radix_cal1.cfg", expect="violation"),
            algo("Radix.tla", "Radix_cal2.cfg", expect="violation"), algo("Radix.tla", "Radix_t.cfg", workers=14, heap="10g", tiers=T)],
        "drivers": [drv("text", "debug"), drv("text", "release", tiers=T)],
    },
    "C05": {
        "mc": L0_QUICK + L0_THOROUGH + [
            algo("Monty.tla", "Monty_q.cfg", workers=8), algo("Monty.tla", "Monty_cal_drop_cx.cfg", expect="violation"),
            algo("Monty.tla", "Monty_cal_skip_sub.cfg", expect="violation"), algo("Monty.tla", "Monty_cal_rest_from_one.cfg", expect="violation"),
            algo("Monty.tla", "Monty_t.cfg", workers=14, heap="10g", tiers=T)],
        "drivers": [drv("modpow", "debug"), drv("modpow", "release", tiers=T)],
    },
    "C08": {
        "mc": L0_QUICK + L0_THOROUGH + [mc("mc", "FloatsMC.tla", "FloatsMC.cfg", workers=2),
               algo("FloatPath.tla", "FloatPath_q.cfg"), algo("FloatPath.tla", "FloatPath_cal1.cfg", expect="violation"),
               algo("FloatPath.tla", "FloatPath_t.cfg", workers=14, tiers=T)],
        "drivers": [drv("conv", "debug"), drv("conv", "release", tiers=T)],
    },
    "C11": {
        "mc": L0_QUICK + L0_THOROUGH + [
            algo("Roots.tla", "Roots_q.cfg"), algo("Roots.tla", "Roots_cal1.cfg", expect="violation"),
            algo("Roots.tla", "Roots_cal2.cfg", expect="violation"), algo("Roots.tla", "Roots_t.cfg", workers=14, heap="10g", tiers=T)],
        "drivers": [drv("roots", "debug"), drv("roots", "debug", features=["rand", "serde"]), drv("roots", "release", tiers=T)],
    },
    "C12": {
        "mc": L0_QUICK + L0_THOROUGH + [algo("SmallAlgos.tla", "SmallAlgos_q.cfg"), algo("SmallAlgos.tla", "SmallAlgos_cal_pow_no_exit.cfg", expect="violation")],
        "drivers": [drv("pow", "debug"), drv("pow", "release", tiers=T)],
    },
    "C13": {
        "mc": L0_QUICK + L0_THOROUGH + [algo("SmallAlgos.tla", "SmallAlgos_q.cfg"), algo("SmallAlgos.tla", "SmallAlgos_cal_gcd_max_shift.cfg", expect="violation")],
        "drivers": [drv("gcd", "debug"), drv("gcd", "release", tiers=T)],
    },
    "C19": {
        "mc": L0_QUICK + L0_THOROUGH,
        "drivers": [drv("sign", "debug"), drv("sign", "release", tiers=T)],
    },
    "C17": {
        "mc": L0_QUICK + L0_THOROUGH + [algo("SmallAlgos.tla", "SmallAlgos_q.cfg"), algo("SmallAlgos.tla", "SmallAlgos_cal_ser_always_hi.cfg", expect="violation")],
        "drivers": [drv("serde", "debug"), drv("serde", "release", tiers=T)],
    },
    "C18": {
        "mc": L0_QUICK + L0_THOROUGH + [algo("SmallAlgos.tla", "SmallAlgos_q.cfg"), algo("SmallAlgos.tla", "SmallAlgos_cal_ser_always_hi.cfg", expect="violation")],
        "drivers": [drv("rand", "debug"), drv("rand", "release", tiers=T)],
    },
    "C04": {
        "mc": L0_QUICK + L0_THOROUGH,
        "drivers": [drv("history", "debug"), drv("history", "release", tiers=T)],
        "owns_reasons": ("noncanon",),
    },
    "C20": {
        "mc": L0_QUICK,
        "drivers": [drv("cost", "release", shards={"quick": 1, "thorough": 1})],
    },
    "C14": {
        "mc": L0_QUICK,
        "drivers": [drv("failures", "debug"), drv("failures", "release")]
                   + [drv(d, "release", shards={"quick": 2, "thorough": 6}, env={"HARNESS_SAMPLE": "8"}) for d in
                      ("addsub", "mul", "div", "bits", "text", "conv", "roots", "pow", "gcd", "forms", "bytes", "history", "sign")]
                   + [drv("modpow", "release", shards={"quick": 6, "thorough": 14}, env={"HARNESS_SAMPLE": "2"})]
                   + [drv(d, "debug", tiers=T, shards={"thorough": 6}, env={"HARNESS_SAMPLE": "3"}) for d in
                      ("addsub", "mul", "div", "bits", "text", "conv", "modpow", "roots", "pow", "gcd", "forms", "bytes", "history", "sign")],
        "owns_reasons": ("unexpected_panic", "missing_failure", "unexpected_none", "crash"),
    },
    "C15": {
        "mc": L0_QUICK,
        "drivers": [drv("addsub", "debug", env={"HARNESS_GUARD": "end"}), drv("addsub", "release", env={"HARNESS_GUARD": "end"}),
                    drv("addsub", "release", env={"HARNESS_DIRTY": "1"}),
                    drv("addsub", "release", tiers=T, env={"HARNESS_GUARD": "start"}),
                    drv("text", "release", env={"HARNESS_GUARD": "end", "HARNESS_SAMPLE": "3"}),
                    drv("rand", "release", env={"HARNESS_GUARD": "end"}),
                    drv("div", "release", env={"HARNESS_GUARD": "end", "HARNESS_SAMPLE": "4"}),
                    drv("mul", "release", tiers=T, env={"HARNESS_GUARD": "end"}),
                    drv("bytes", "release", tiers=T, env={"HARNESS_GUARD": "end"})],
        "owns_reasons": ("crash", "srcmod"),
    },
    "C10": {
        "mc": L0_QUICK + L0_THOROUGH,
        "drivers": [drv("forms", "debug"), drv("forms", "release", tiers=T)],
    },
    "C16": {
        "mc": [],
        "drivers": [],
        "custom": None,   # set below (tools/c16.py)
    },
}

# which properties own the value rule of an operation (a BAD event is a violation only for an owner)
OP_OWNERS = {}


def own(pid, ops):
    for o in ops.split():
        OP_OWNERS.setdefault(o, set()).add(pid)


own("C01", "add sub checked_add checked_sub add_sc sub_sc rsub_sc")
own("C02", "mul checked_mul mul_sc")
own("C03", "div rem div_rem checked_div div_floor mod_floor div_mod_floor div_ceil div_euclid rem_euclid div_rem_euclid checked_div_euclid checked_rem_euclid checked_div_rem_euclid is_multiple_of")
own("C07", "bitand bitor bitxor not shl shr bit set_bit bits trailing_zeros trailing_ones count_ones")
own("C05", "modpow modinv")
own("C15", "to_str_radix fmt gen_biguint")
own("C06", "to_str_radix fmt to_radix_le to_radix_be parse from_radix_le from_radix_be")
own("C08", "to_prim to_prim_val to_biguint to_biguint_val to_bigint to_f64 to_f32 from_prim from_float")
own("C09", "from_bytes_le from_bytes_be new_u32 from_signed_bytes_le from_signed_bytes_be to_bytes_le to_bytes_be to_u32_digits to_u64_digits to_signed_bytes_le to_signed_bytes_be iter_collect iter")
own("C10", "add sub mul div rem rem_prim sum product bitand bitor bitxor shl shr pow checked_add checked_sub checked_mul checked_div div_rem div_floor mod_floor div_mod_floor div_ceil div_euclid rem_euclid div_rem_euclid checked_div_euclid checked_rem_euclid checked_div_rem_euclid")
own("C11", "sqrt cbrt nth_root")
own("C12", "pow pow_big")
own("C13", "gcd lcm gcd_lcm extended_gcd extended_gcd_lcm next_multiple_of prev_multiple_of is_multiple_of is_even is_odd inc dec")
own("C17", "serialize deserialize serde_roundtrip")
own("C18", "gen_biguint gen_bigint gen_biguint_below gen_range")
own("C20", "cost_table")
own("C19", "from_biguint clone neg abs signum is_positive is_negative sign magnitude into_parts abs_sub is_zero is_one set_zero set_one const sign_neg sign_mul to_biguint to_bigint")
own("C04", "clone obs")

# properties whose statement itself names a must-panic case (others leave missing panics to C14)
FAILURE_STATED = {"C01", "C03", "C05", "C07", "C11", "C14", "C18"}

# reasons owned by cross-cutting properties, whatever the operation
REASON_OWNERS = {
    "noncanon": {"C04"},
    "srcmod": {"C15"},
    "crash": {"C14", "C15"},
    "unexpected_panic": {"C14"},
    "missing_failure": {"C14"},
    "unexpected_none": {"C14"},
}

COMMON_NOTE = ("Trusted: TLC/SANY with the CommunityModules Java overrides; the harness projection raw digits -> bytes; python orchestration. "
               "The verdict covers the behaviours recorded in this run (listed in the evidence), not all inputs; L2 model results hold for the scaled constants.")
TECH = "TLA+ trace validation with TLC (recorded library calls checked against NumTrace/NumApi) + TLC model checking of the value algebra"

MANIFEST_TEXT = {
    "C01": {
        "level": "Every recorded addition/subtraction call (all operand forms, length pairs 0..17/23 on both sides of the 5-digit block boundary, "
                 "carry/borrow chain patterns, four sign combinations) is accepted by the TLA+ trace specification, whose byte-level Add/Sub/Cmp "
                 "are model-checked against TLC integers; underflow must panic / be None exactly when a<b.",
        "note": COMMON_NOTE, "technique": TECH,
    },
}
NOT_APPLICABLE = {}

import c16 as _c16  # noqa: E402
import asmx as _asmx  # noqa: E402
PROPS["C16"]["custom"] = _c16.run
PROPS["C01"]["custom"] = _asmx.run
PROPS["C15"]["custom"] = _asmx.run
import rbind as _rbind  # noqa: E402
PROPS["C09"]["custom"] = _rbind.iter_step
for _p in ("C04", "C19", "C10", "C03", "C07", "C13"):
    PROPS[_p]["custom"] = _rbind.machine_step
import costdrift as _costdrift  # noqa: E402
PROPS["C20"]["custom"] = _costdrift.run
