#!/bin/sh
# usage: confirm_seed.sh <seed dir with patch.diff, demo.rs, meta.json>
# Confirms in the scratch worktree /tmp/wt/main (HEAD of /repo): suite passes with the change, demo fails with it, demo passes without.
D="$1"; shift; EXTRA="$@"; WT="${CONFIRM_WT:-/tmp/wt/main}"
[ -d "$WT" ] || git -C /repo worktree add -q --detach "$WT" HEAD   # scratch worktree, remove with: git -C /repo worktree remove --force /tmp/wt/main
cd $WT || exit 2
git checkout -q -- . ; git clean -qfd tests/ ; git checkout -q --detach $(git -C /repo rev-parse HEAD) 2>/dev/null
export CARGO_TARGET_DIR=$WT/target
cp "$D/demo.rs" tests/demo.rs
cargo test --offline $EXTRA --test demo >/tmp/cs_clean.$$ 2>&1; CLEAN=$?
if ! git apply "$D/patch.diff" 2>/dev/null; then
  git apply --3way "$D/patch.diff" >/dev/null 2>&1
  for f in $(git diff --name-only --diff-filter=U); do
    python3 - "$f" <<'PY'
import sys,re
p=sys.argv[1]; s=open(p).read()
s=re.sub(r'<<<<<<< ours\n.*?=======\n(.*?)>>>>>>> theirs\n', r'\1', s, flags=re.S)
open(p,'w').write(s)
PY
  done
  git reset -q
fi
git diff -- src > /tmp/cs_patch.$$
cargo test --offline $EXTRA --test demo >/tmp/cs_mut.$$ 2>&1; MUT=$?
rm tests/demo.rs
cargo test --offline 2>&1 | grep -E "^test result" | awk '{p+=$4; f+=$6} END {print p, f}' > /tmp/cs_suite.$$
read P F < /tmp/cs_suite.$$
git checkout -q -- . ; git clean -qfd tests/
echo "$(basename $D): demo_clean_rc=$CLEAN demo_mutant_rc=$MUT suite_passed=$P suite_failed=$F patch_lines=$(wc -l < /tmp/cs_patch.$$)"
cp /tmp/cs_patch.$$ "$D/patch.rebased.diff"
rm -f /tmp/cs_*.$$
