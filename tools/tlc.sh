#!/bin/sh
# usage: tlc.sh <metadir> <workers> <heap> <cfg> <module.tla> [extra TLC args]   (run from the module's directory)
META="$1"; W="$2"; HEAP="$3"; CFG="$4"; MOD="$5"; shift 5
: "${VERIF_ROOT:=/verif}"
export JAVA_TOOL_OPTIONS="-Xss1g ${TLC_JAVA_OPTS:-}"
exec java -XX:+UseParallelGC -Xmx"$HEAP" -cp /opt/veriftools/tla/tla2tools.jar:/opt/veriftools/tla/CommunityModules-deps.jar \
  -DTLA-Library="$VERIF_ROOT/spec:$VERIF_ROOT/spec/algo:$VERIF_ROOT/mc" tlc2.TLC -workers "$W" -metadir "$META" -cleanup -noGenerateSpecTE -config "$CFG" "$MOD" "$@"
