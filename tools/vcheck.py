#!/usr/bin/env python3
"""Orchestrator for the model-based verification of num-bigint.

  check <ID> [--tier quick|thorough]     decide one property
  check replay <path>                    re-validate a replay file (and re-record it on the current tree)
  check list                             list properties and what runs for each

Exit 0: property held on everything explored; 1: VIOLATION line printed; 2: tool trouble.
"""
import json, os, re, shutil, subprocess, sys, time, concurrent.futures as cf

ROOT = os.path.dirname(os.path.dirname(os.path.abspath(__file__)))
REPO = os.environ.get("VERIF_REPO", "/repo")
WORK = os.path.join(ROOT, "work")
HARNESS = os.path.join(ROOT, "harness")
NCPU = os.cpu_count() or 8
JOBS = max(2, min(14, NCPU - 2))

sys.path.insert(0, os.path.join(ROOT, "tools"))
from props import PROPS, OP_OWNERS, REASON_OWNERS, FAILURE_STATED  # noqa: F401  # noqa: E402


class ToolError(Exception):
    pass


def log(*a):
    print(*a, flush=True)


def run(cmd, cwd=None, env=None, timeout=None, check=False):
    e = dict(os.environ)
    if env:
        e.update(env)
    p = subprocess.run(cmd, cwd=cwd, env=e, stdout=subprocess.PIPE, stderr=subprocess.STDOUT, text=True, timeout=timeout)
    if check and p.returncode != 0:
        raise ToolError("command failed (%d): %s\n%s" % (p.returncode, " ".join(cmd), p.stdout[-4000:]))
    return p.returncode, p.stdout


# ------------------------------------------------------------------ build
_built = {}


def build_harness(profile="debug", features=None):
    """Build the harness against /repo's working tree; returns the binary path (copied per variant)."""
    key = (profile, tuple(features) if features is not None else None)
    if key in _built:
        return _built[key]
    cmd = ["cargo", "build", "--offline"]
    if profile == "release":
        cmd.append("--release")
    tag = profile
    if features is not None:
        cmd += ["--no-default-features", "--features", ",".join(features) if features else ""]
        if not features:
            cmd = cmd[:-2]
        tag += "-" + ("_".join(features) if features else "nofeat")
    t0 = time.time()
    env = {"CARGO_NET_OFFLINE": "true"}
    tdir = "target"
    if features is not None:
        # one shared directory for all non-default variants keeps disk use bounded; the two extremes get their own cache
        tdir = "target-nostd" if not features else ("target-std" if features == ["std"] else "target-" + "_".join(features))
        cmd += ["--target-dir", tdir]
    rc, out = run(cmd, cwd=HARNESS, env=env, timeout=1800)
    if rc != 0:
        raise BuildError(tag, out)
    src = os.path.join(HARNESS, tdir, "release" if profile == "release" else "debug", "harness")
    os.makedirs(os.path.join(WORK, "bin"), exist_ok=True)
    dst = os.path.join(WORK, "bin", "harness-" + tag)
    shutil.copy2(src, dst)
    _built[key] = dst
    log("[build] harness %s in %.1fs" % (tag, time.time() - t0))
    return dst


class BuildError(Exception):
    def __init__(self, tag, out):
        self.tag, self.out = tag, out


# ------------------------------------------------------------------ TLC
TLC_CP = "/opt/veriftools/tla/tla2tools.jar:/opt/veriftools/tla/CommunityModules-deps.jar"


def tlc(moddir, module, cfg, metadir, workers=1, heap="2g", env=None, extra=None, timeout=3600, deque=False):
    jopts = "-Xss1g" + (" -Dtlc2.tool.queue.IStateQueue=StateDeque" if deque else "")
    e = {"JAVA_TOOL_OPTIONS": jopts}
    if env:
        e.update(env)
    lib = ":".join([os.path.join(ROOT, "spec"), os.path.join(ROOT, "spec", "algo"), os.path.join(ROOT, "mc")])
    cmd = ["java", "-XX:+UseParallelGC", "-Xmx" + heap, "-cp", TLC_CP, "-DTLA-Library=" + lib, "tlc2.TLC",
           "-workers", str(workers), "-metadir", metadir, "-cleanup", "-noGenerateSpecTE", "-config", cfg, module]
    if extra:
        cmd += extra
    shutil.rmtree(metadir, ignore_errors=True)
    try:
        rc, out = run(cmd, cwd=moddir, env=e, timeout=timeout)
    except subprocess.TimeoutExpired:
        raise ToolError("TLC timeout on %s/%s" % (module, cfg))
    finally:
        shutil.rmtree(metadir, ignore_errors=True)
    return rc, out


STATES_RE = re.compile(r"(\d+) states generated, (\d+) distinct states found")


def run_mc(job, tier):
    """job: dict(dir, module, cfg, workers, heap, tiers). Returns dict with states etc."""
    moddir = os.path.join(ROOT, job["dir"])
    meta = os.path.join(WORK, "mc_" + job["cfg"].replace(".cfg", "") + "_%d" % os.getpid())
    t0 = time.time()
    rc, out = tlc(moddir, job["module"], job["cfg"], meta, workers=job.get("workers", 4), heap=job.get("heap", "4g"),
                  timeout=job.get("timeout", 3000), env=job.get("env"))
    m = STATES_RE.findall(out)
    res = {"module": job["module"], "cfg": job["cfg"], "wall_s": round(time.time() - t0, 1), "ok": False,
           "generated": 0, "distinct": 0}
    if m:
        res["generated"], res["distinct"] = int(m[-1][0]), int(m[-1][1])
    if job.get("expect") == "violation":
        # calibration run: a seeded change of the transcription must be rejected inside this instance
        res["ok"] = bool(re.search(r"Invariant \w+ is violated", out))
        res["calibration"] = True
        if not res["ok"]:
            res["out_tail"] = "calibration mutant was NOT rejected: the scaled instance is blind to it\n" + out[-2000:]
    elif "Model checking completed. No error has been found." in out and rc == 0:
        res["ok"] = True
    else:
        res["out_tail"] = out[-3000:]
        res["violated"] = ("is violated" in out) or ("Invariant" in out and "violated" in out)
    return res


# ------------------------------------------------------------------ recording and trace validation
def record_shard(binpath, driver, seed, tier, shard, nshards, outfile, timeout, only=None, env=None):
    cmd = [binpath, "record", "--driver", driver, "--seed", str(seed), "--tier", tier, "--shard", str(shard),
           "--nshards", str(nshards), "--out", outfile]
    if only is not None:
        cmd += ["--only", str(only)]
    status = {"rc": None, "timeout": False, "probes": {}, "cases": 0, "events": 0}
    inflight = outfile + ".inflight"
    env = dict(env or {})
    env["HARNESS_INFLIGHT"] = inflight
    try:
        rc, out = run(cmd, timeout=timeout, env=env)
        status["rc"] = rc
        for line in out.splitlines():
            if line.startswith("PROBES"):
                for kv in line.split()[1:]:
                    k, v = kv.split("=")
                    status["probes"][k] = int(v)
            if line.startswith("DONE"):
                for kv in line.split()[1:]:
                    k, v = kv.split("=")
                    status[k] = int(v)
        if rc != 0:
            status["out_tail"] = out[-2000:]
            if "HARNESS PANIC" in out:
                # the harness called the library outside a recorded call and that panicked: either a driver bug or the
                # library choking on a value it produced itself.  The recorded prefix decides: see check_property.
                status["harness_panic"] = out[-1500:]
    except subprocess.TimeoutExpired:
        status["timeout"] = True
    if status.get("harness_panic"):
        return status
    if status["rc"] != 0 or status["timeout"]:
        # every Call has a Return: a crash or hang is made visible to the trace specification
        try:
            during = re.sub(r"[^A-Za-z0-9_]", "", open(inflight).read())[:40]
        except OSError:
            during = ""
        with open(outfile, "a") as f:
            f.write(json.dumps({"op": "crashed", "form": ("timeout" if status["timeout"] else "rc=%s" % status["rc"]) + (" in " + during if during else ""),
                                "src": [], "dst": [], "out": "crash", "same": True, "post": [], "ret": {}}) + "\n")
    return status


BAD_RE = re.compile(r'<<"BAD", (\d+), "([^"]*)", "([^"]*)", "([^"]*)">>')


def validate_trace(path, tag):
    meta = os.path.join(WORK, "tv_%s_%d" % (tag, os.getpid()))
    rc, out = tlc(os.path.join(ROOT, "spec"), "NumTrace.tla", "NumTrace.cfg", meta, workers=1, heap="3g",
                  env={"TRACE": path}, deque=True, timeout=3000)
    bads = [(int(a), b, c, d) for a, b, c, d in BAD_RE.findall(out)]
    consumed = re.search(r'<<"TRACE_CONSUMED", (\d+)>>', out)
    if not consumed:
        stuck = re.search(r'<<"TRACE_STUCK", (\d+)>>', out)
        raise ToolError("trace %s not consumed (%s)\n%s" % (path, stuck.group(1) if stuck else "?", out[-3000:]))
    m = STATES_RE.findall(out)
    return {"bads": sorted(set(bads)), "events": int(consumed.group(1)), "states": int(m[-1][1]) if m else 0}


def read_events(path):
    with open(path) as f:
        return [json.loads(x) for x in f if x.strip()]


def case_slice(events, lineno):
    """events of the case that contains 1-based line `lineno` (self-contained: starts at its case header)."""
    k = lineno - 1
    start = k
    while start > 0 and events[start].get("op") != "case":
        start -= 1
    end = k + 1
    while end < len(events) and events[end].get("op") != "case":
        end += 1
    return start, end


def sign_class(v):
    if not v or not v.get("d"):
        return "z"
    return "n" if v.get("s", 1) < 0 else "p"


def signature(events, start, k):
    """operand-class signature of event k (0-based) for known-finding matching"""
    regs = {}
    for e in events[start:k]:
        if e.get("out") == "ok":
            for d, p in zip(e.get("dst", []), e.get("post", [])):
                regs[d] = p
        else:
            for d in e.get("dst", []):
                regs[d] = None
    e = events[k]
    parts = [sign_class(regs.get(s)) for s in e.get("src", [])]
    for sc in e.get("sc", []):
        parts.append("sc:" + sc.get("t", "?") + ":" + ("z" if not sc["m"] else ("n" if sc["neg"] else "p")))
    return ",".join(parts)


def owners_of(op, reason):
    """which properties a rejected event counts against"""
    if reason in ("srcmod", "crash"):
        return set(REASON_OWNERS[reason])      # memory / termination rules have their own properties
    if reason == "missing_failure":
        # "must panic here" is owned by C14 and by the properties whose statement names the failure case
        return set(REASON_OWNERS[reason]) | (set(OP_OWNERS.get(op, ())) & FAILURE_STATED)
    return set(OP_OWNERS.get(op, ())) | set(REASON_OWNERS.get(reason, ()))


# ------------------------------------------------------------------ known findings
def load_known():
    p = os.path.join(ROOT, "known_findings.json")
    if not os.path.exists(p):
        return []
    return json.load(open(p)).get("findings", [])


def known_match(known, prop, op, ty, reason, sig):
    for k in known:
        if k.get("status") != "known":
            continue
        if k["property"] == prop and k["op"] == op and k.get("ty", ty) == ty and k.get("reason", reason) == reason \
                and k.get("sig", sig) == sig:
            return k
    return None


# ------------------------------------------------------------------ main per-property check
def check_property(pid, tier, seed):
    spec = PROPS[pid]
    t0 = time.time()
    os.makedirs(WORK, exist_ok=True)
    wdir = os.path.join(WORK, pid)
    shutil.rmtree(wdir, ignore_errors=True)
    os.makedirs(wdir)
    rdir = os.path.join(ROOT, "replays", pid)
    os.makedirs(rdir, exist_ok=True)
    known = load_known()
    violations = []   # (desc, replay path)
    known_hits = []
    notes = []
    cov = {"states": 0, "transitions": 0, "traces_validated_against_impl": 0, "events": 0, "cases": 0,
           "model_runs": [], "drivers": [], "probes": {}, "samples": [], "foreign_bad": 0, "op_counts": {},
           "forms": 0}

    # 1. model checking jobs (run concurrently with the build + recording where cores allow)
    mc_jobs = [j for j in spec.get("mc", []) if tier in j.get("tiers", ("quick", "thorough"))]
    pool = cf.ThreadPoolExecutor(max_workers=JOBS)
    mc_futs = [pool.submit(run_mc, j, tier) for j in mc_jobs]

    # 2. build + record + validate
    drivers = [d for d in spec.get("drivers", []) if tier in d.get("tiers", ("quick", "thorough"))]
    forms_seen = set()
    harness_panics = []
    try:
        # phase A: builds (sequential, cargo serialises anyway); phase B: every shard of every driver is recorded and
        # then validated by its own single-worker TLC, all through one pool; phase C: results in driver order
        plan = []
        for di, d in enumerate(drivers):
            binpath = build_harness(d.get("profile", "debug"), d.get("features"))
            nsh = d.get("shards", {}).get(tier, JOBS)
            tagp = d.get("profile", "debug") + "".join("-" + k.replace("HARNESS_", "").lower() + v for k, v in sorted(d.get("env", {}).items()))
            if d.get("features") is not None:
                tagp += "-f" + ("_".join(d["features"]) or "none")
            files = [os.path.join(wdir, "%s.%s.%d.ndjson" % (d["driver"], tagp, k)) for k in range(nsh)]
            assert files[0] not in [f for pl in plan for f in pl[2]], "two driver runs with the same file names"
            tmo = d.get("timeout", {}).get(tier, 1200)

            def job(binpath=binpath, d=d, k=0, nsh=nsh, fpath=None, tmo=tmo, di=di):
                st = record_shard(binpath, d["driver"], seed, tier, k, nsh, fpath, tmo, None, d.get("env"))
                if st.get("harness_panic") and not os.path.exists(fpath):
                    open(fpath, "w").close()
                res = validate_trace(fpath, "%s_%d_%s_%d" % (pid, di, d["driver"], k)) if os.path.getsize(fpath) > 0 else {"bads": [], "events": 0, "states": 0}
                return st, res
            futs = [pool.submit(job, k=k, fpath=files[k]) for k in range(nsh)]
            plan.append((d, nsh, files, futs))
        for d, nsh, files, futs in plan:
            pairs = [f.result() for f in futs]
            stats = [p[0] for p in pairs]
            for st in stats:
                if st.get("harness_panic"):
                    harness_panics.append(st["harness_panic"])
            dinfo = {"driver": d["driver"], "profile": d.get("profile", "debug"), "shards": nsh,
                     "cases": max([s.get("cases", 0) for s in stats] + [0]), "events": sum(s.get("events", 0) for s in stats),
                     "crashed_shards": sum(1 for s in stats if s["rc"] != 0 or s["timeout"])}
            if d.get("env"):
                dinfo["env"] = d["env"]
            for s in stats:
                for k, v in s["probes"].items():
                    cov["probes"][k] = cov["probes"].get(k, 0) + v
            for k, pr in enumerate(pairs):
                res = pr[1]
                cov["traces_validated_against_impl"] += 1
                cov["events"] += res["events"]
                cov["states"] += res["states"]
                cov["transitions"] += res["events"]
                events = None
                if res["bads"] or (k == 0 and len(cov["samples"]) < 6):
                    events = read_events(files[k])
                if events is not None and k == 0:
                    # a few sample events from the first shard
                    step = max(1, len(events) // 3)
                    for ev in events[1::step][:3]:
                        cov["samples"].append(trim_event(ev))
                for (ln, op, form, reason) in res["bads"]:
                    ev = events[ln - 1]
                    owners = owners_of(op, reason)
                    if reason == "crash" and " in " in form:
                        # the call that never returned: "every x has a root / a quotient / ..." fails for the operation in flight too
                        owners |= set(OP_OWNERS.get(form.split(" in ", 1)[1], ()))
                    if "*" in spec.get("owns_reasons", ()) or reason in spec.get("owns_reasons", ()):
                        owners.add(pid)
                    start, end = case_slice(events, ln)
                    sig = signature(events, start, ln - 1)
                    if pid not in owners:
                        cov["foreign_bad"] += 1
                        notes.append("NOTE foreign BAD (owners %s) op=%s form=%s reason=%s sig=%s" % (sorted(owners), op, form, reason, sig))
                        continue
                    ty = ev.get("ty", "")
                    km = known_match(known, pid, op, ty, reason, sig)
                    if km:
                        known_hits.append((km, op, form, reason, sig))
                        continue
                    rp = os.path.join(rdir, "%s-%s-case%s-line%d.ndjson" % (d["driver"], d.get("profile", "debug"),
                                                                             events[start].get("id", "x"), ln - start))
                    with open(rp, "w") as f:
                        for x in events[start:ln]:
                            f.write(json.dumps(x) + "\n")
                    violations.append(("op=%s form=%s ty=%s reason=%s sig=%s" % (op, form, ty, reason, sig), rp))
            # per-op counts / distinct forms from shard 0..n (cheap pass over files)
            for fpath in files:
                with open(fpath) as f:
                    for line in f:
                        m = re.match(r'\{"op":"([^"]*)","form":"([^"]*)"', line)
                        if m:
                            cov["op_counts"][m.group(1)] = cov["op_counts"].get(m.group(1), 0) + 1
                            forms_seen.add((m.group(1), m.group(2)))
            cov["cases"] += dinfo["cases"]
            cov["drivers"].append(dinfo)
            if not os.environ.get("VERIF_KEEP"):
                for fpath in files:
                    os.remove(fpath)
    except BuildError as be:
        log("[build] FAILED for %s:\n%s" % (be.tag, be.out[-3000:]))
        bh = spec.get("build_failure_is_violation")
        if bh and bh(be):
            rp = os.path.join(rdir, "build-%s.log" % be.tag)
            open(rp, "w").write(be.out)
            violations.append(("build failed for configuration %s" % be.tag, rp))
        else:
            pool.shutdown(wait=False, cancel_futures=True)
            raise ToolError("harness build failed")

    for f in mc_futs:
        res = f.result()
        cov["model_runs"].append({k: res[k] for k in ("module", "cfg", "generated", "distinct", "wall_s", "ok", "calibration") if k in res})
        cov["states"] += res["distinct"]
        cov["transitions"] += res["generated"]
        if not res["ok"]:
            # L0/L2 model trouble is a specification problem, never a verdict about the code
            raise ToolError("model run %s/%s did not complete cleanly:\n%s" % (res["module"], res["cfg"], res.get("out_tail", "")))
    pool.shutdown()
    cov["forms"] = len(forms_seen)

    # custom step (extraction-based checks etc.)
    if "custom" in spec:
        spec["custom"](pid, tier, seed, cov, violations, notes, sys.modules[__name__])

    if harness_panics and pid == "C14":
        # Outside recorded calls the drivers use the library only on valid input (building operands: shifts, powers, sums of
        # small values) and never panic on the unchanged tree, where they are deterministic.  A panic there is a failure
        # without a documented failure case, which is what C14 is about.
        rp = os.path.join(rdir, "harness-panic-outside-recorded-call.log")
        open(rp, "w").write(harness_panics[0])
        violations.append(("the library panicked on valid input while a driver was building its operands (no documented failure case): %s"
                           % harness_panics[0].strip().splitlines()[-1][:200], rp))
    if harness_panics and not violations:
        # nothing in the recorded prefixes explains it: tool trouble, not a verdict
        raise ToolError("the harness itself panicked outside a recorded call (driver bug, not a verdict):\n" + harness_panics[0])
    for hp in harness_panics[:1]:
        notes.append("NOTE harness stopped early in a shard after a library panic outside a recorded call; violations below come from the recorded prefix")
    for n in notes[:20]:
        log(n)
    seen = set()
    for (km, op, form, reason, sig) in known_hits:
        key = (km.get("id"), op, reason, sig)
        if key in seen:
            continue
        seen.add(key)
        log("KNOWN-FINDING: property=%s %s (op=%s reason=%s sig=%s)" % (pid, km.get("what", ""), op, reason, sig))
    for desc, rp in violations[:50]:
        log("VIOLATION property=%s replay=%s  %s" % (pid, rp, desc))

    wall = time.time() - t0
    write_evidence(pid, tier, seed, spec, cov, len(violations), len(seen), wall)
    log("[%s] tier=%s events=%d traces=%d states=%d violations=%d known=%d wall=%.1fs" % (
        pid, tier, cov["events"], cov["traces_validated_against_impl"], cov["states"], len(violations), len(seen), wall))
    return 1 if violations else 0


def trim_event(ev, maxlen=24):
    def t(x):
        if isinstance(x, list):
            if len(x) > maxlen and all(isinstance(y, int) for y in x):
                return x[:maxlen] + ["...(%d bytes)" % len(x)]
            return [t(y) for y in x[:maxlen]]
        if isinstance(x, dict):
            return {k: t(v) for k, v in x.items()}
        return x
    return t(ev)


def write_evidence(pid, tier, seed, spec, cov, nviol, nknown, wall):
    ev = {
        "property_id": pid,
        "tier": tier,
        "seed": seed,
        "level": "model_checking",
        "coverage": {
            "states": max(1, cov["states"]),
            "transitions": max(1, cov["transitions"]),
            "traces_validated_against_impl": cov["traces_validated_against_impl"],
            "samples": cov["samples"] or [{"note": "no trace events in this run"}],
            "evaluations": cov["events"] + sum(r["distinct"] for r in cov["model_runs"]),
            "distinct_nontrivial": cov["cases"] + sum(r["distinct"] for r in cov["model_runs"]),
            "rule": spec.get("rule", "events = recorded library calls checked by TLC against NumTrace; cases = distinct generated operand "
                                     "situations (each non-trivial by construction of the driver); model states = distinct states of the "
                                     "TLC model-checking runs listed under model_runs"),
            "events_validated": cov["events"],
            "cases": cov["cases"],
            "distinct_op_forms": cov["forms"],
            "op_counts": cov["op_counts"],
            "model_runs": cov["model_runs"],
            "drivers": cov["drivers"],
            "probes": cov["probes"],
            "foreign_bad_events": cov["foreign_bad"],
            "known_findings_hit": nknown,
            "checker_cmd": "tlc (TLC2 2026.09.04) via tools/vcheck.py",
            "exhaustive": False,
        },
        "assumptions": spec.get("assumptions", [
            "TLC/SANY and the CommunityModules Java overrides (Json, IOUtils, SequencesExt folds, Bitwise) are correct",
            "the harness projection of register contents (raw digit slice -> little-endian bytes) is correct",
            "L0 operators transfer from the small bases checked in mc/BigNatMC and mc/BigZMC to base 256 (same text, uniform in Base)",
        ]),
        "wall_s": round(wall, 1),
        "violations": nviol,
    }
    for k, v in cov.get("extra", {}).items():
        ev["coverage"][k] = v
    os.makedirs(os.path.join(ROOT, "evidence"), exist_ok=True)
    with open(os.path.join(ROOT, "evidence", pid + ".json"), "w") as f:
        json.dump(ev, f, indent=1)


def replay(path):
    if path.endswith(".log"):
        log(open(path).read()[-3000:])
        return 0
    if path.endswith(".json"):
        # a TLC-generated behaviour the code disagreed with: execute it again on the current tree
        rec = json.load(open(path))
        log("recorded disagreement: %s" % rec.get("why"))
        sub = "replay-iter" if os.path.basename(path).startswith("iter-") else "replay-machine"
        os.makedirs(WORK, exist_ok=True)
        tmp = os.path.join(WORK, "replay_behaviour_%d.ndjson" % os.getpid())
        with open(tmp, "w") as f:
            f.write(json.dumps(rec["behaviour"]) + "\n")
        rc, out = run([build_harness("debug"), sub, tmp], timeout=600)
        os.remove(tmp)
        m = re.search(r"REPLAYED behaviours=(\d+) mismatches=(\d+)", out)
        if not m:
            log("the replayer died on the current tree (rc=%s):\n%s" % (rc, out[-1500:]))
            return 1
        for l in out.splitlines():
            if l.startswith("MISMATCH "):
                log("on the current tree: %s" % json.loads(l[len("MISMATCH "):]).get("why"))
        log("re-executed on the current tree: mismatches=%s" % m.group(2))
        return 1 if int(m.group(2)) else 0
    events = read_events(path)
    res = validate_trace(path, "replay")
    log("recorded trace: %d events, BAD: %s" % (res["events"], res["bads"]))
    hdr = events[0]
    rc = 1 if res["bads"] else 0
    if hdr.get("op") == "case" and "driver" in hdr:
        prof = hdr.get("profile", "debug")
        binpath = build_harness(prof)
        out = os.path.join(WORK, "replay_rerun.ndjson")
        os.makedirs(WORK, exist_ok=True)
        record_shard(binpath, hdr["driver"], hdr["seed"], hdr["tier"], 0, 1, out, 600, only=hdr["id"], env=hdr.get("modes") or None)
        res2 = validate_trace(out, "replay2")
        log("re-recorded on the current tree: %d events, BAD: %s" % (res2["events"], res2["bads"]))
        rc = 1 if res2["bads"] else 0
    return rc


def main(argv):
    if len(argv) < 2:
        print(__doc__)
        return 2
    if argv[1] == "list":
        for pid, s in PROPS.items():
            print(pid, "mc:", [j["cfg"] for j in s.get("mc", [])], "drivers:", [d["driver"] for d in s.get("drivers", [])])
        return 0
    if argv[1] == "replay":
        return replay(argv[2])
    pid = argv[1]
    tier = os.environ.get("VERIF_TIER", "quick")
    if "--tier" in argv:
        tier = argv[argv.index("--tier") + 1]
    seed = int(os.environ.get("VERIF_SEED", "0") or 0)
    if pid not in PROPS:
        print("unknown property", pid)
        return 2
    return check_property(pid, tier, seed)


if __name__ == "__main__":
    try:
        sys.exit(main(sys.argv))
    except ToolError as e:
        print("TOOL-ERROR:", e, flush=True)
        sys.exit(2)
