#!/bin/sh
# usage: sweep_seeds.sh <dir with seed subdirs> <out log> [ids...]  -- confirm each seed in the scratch worktree and run its property's quick check on it
SRC="$1"; OUT="$2"; shift 2
IDS="$@"
[ -z "$IDS" ] && IDS=$(ls "$SRC" | grep -E '^C[0-9]+_[0-9]+$')
for id in $IDS; do
  d="$SRC/$id"; prop=${id%_*}
  extra=""; flags=""
  case $prop in C16|C17|C18) extra="--features rand,serde";; C20) extra="--release"; flags="--cfg num_bigint_verif";; esac
  if [ -n "$flags" ]; then c=$(RUSTFLAGS="$flags" /verif/tools/confirm_seed.sh "$d" $extra 2>&1 | tail -1); else c=$(/verif/tools/confirm_seed.sh "$d" $extra 2>&1 | tail -1); fi
  r=$(/verif/tools/try_seeded.sh "$d/patch.diff" $prop 2>&1 | grep -E "^violations:|^exit=" | tr '\n' ' ')
  echo "$id | $c | $prop: $r" >> "$OUT"
done
