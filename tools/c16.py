"""C16: every supported feature configuration builds and computes identical results.

The configuration list comes from TLC (spec/Config.tla, MODE enumerate); each configuration is
`cargo check`ed on /repo itself (guard off), a deterministic transcript is recorded with the harness
built for {std, no_std} x {debug, release} (thorough: every configuration), the outcomes are replayed
against Config.tla (MODE trace) and every distinct transcript is validated by NumTrace.
"""
import hashlib, json, os, re, shutil, subprocess, time
import concurrent.futures as cf


def run(pid, tier, seed, cov, violations, notes, V):
    ROOT, WORK = V.ROOT, V.WORK
    wdir = os.path.join(WORK, pid)
    os.makedirs(wdir, exist_ok=True)
    rdir = os.path.join(ROOT, "replays", pid)
    os.makedirs(rdir, exist_ok=True)
    # 1. configurations from the model
    meta = os.path.join(WORK, "c16_enum_%d" % os.getpid())
    rc, out = V.tlc(os.path.join(ROOT, "spec"), "Config.tla", "Config.cfg", meta, workers=1, heap="1g",
                    env={"CONFIG_MODE": "enumerate", "CONFIG_TIER": tier, "TRACE": "none"})
    cfgs = [json.loads(json.loads('"' + m + '"')) for m in re.findall(r'<<"CONFIG", "(.*)">>', out)]
    m = V.STATES_RE.findall(out)
    if not cfgs or not m:
        raise V.ToolError("Config.tla enumeration failed:\n" + out[-2000:])
    cov["states"] += int(m[-1][1])
    cov["transitions"] += int(m[-1][0])
    cov["model_runs"].append({"module": "Config.tla", "cfg": "enumerate/" + tier, "generated": int(m[-1][0]), "distinct": int(m[-1][1]), "wall_s": 0, "ok": True})

    def name(c):
        return ("std" if c["std"] else "nostd") + "".join("+" + f for f in sorted(c["features"])) + "/" + c["profile"]

    def feats(c):
        return (["std"] if c["std"] else []) + sorted(c["features"])

    # 2. cargo check of the crate itself in every configuration (hooks off)
    tdir = os.path.join(WORK, "c16-target")
    results = {}
    for c in sorted(cfgs, key=name):
        cmd = ["cargo", "check", "--offline", "--lib", "--no-default-features"]
        if feats(c):
            cmd += ["--features", " ".join(feats(c))]
        if c["profile"] == "release":
            cmd.append("--release")
        t0 = time.time()
        rc, out = V.run(cmd, cwd=V.REPO, env={"CARGO_TARGET_DIR": tdir, "CARGO_NET_OFFLINE": "true"}, timeout=1200)
        results[name(c)] = {"cfg": c, "built": rc == 0, "log": out, "digest": None, "wall": time.time() - t0}
    # 3. transcripts
    if tier == "thorough":
        tcfgs = cfgs
    else:
        tcfgs = [c for c in cfgs if not c["features"]]
    digests = {}
    files_by_digest = {}
    for c in sorted(tcfgs, key=name):
        res = results[name(c)]
        if not res["built"]:
            continue
        try:
            binpath = V.build_harness(c["profile"], feats(c))
        except V.BuildError as be:
            res["built"] = False
            res["log"] = be.out
            continue
        nsh = V.JOBS
        files = [os.path.join(wdir, "transcript.%s.%d.ndjson" % (name(c).replace("/", "_").replace("+", "_"), k)) for k in range(nsh)]
        with cf.ThreadPoolExecutor(max_workers=nsh) as pool:
            futs = [pool.submit(V.record_shard, binpath, "transcript", seed, tier, k, nsh, files[k], 1200) for k in range(nsh)]
            stats = [f.result() for f in futs]
        h = hashlib.sha256()
        nev = 0
        for f in files:
            with open(f, "rb") as fh:
                for line in fh:
                    if line.startswith(b'{"op":"case"'):
                        continue
                    h.update(line)
                    nev += 1
        res["digest"] = h.hexdigest()
        res["events"] = nev
        if res["digest"] not in files_by_digest:
            files_by_digest[res["digest"]] = (name(c), files)
        else:
            for f in files:
                os.remove(f)
        for s in stats:
            for k, v in s["probes"].items():
                cov["probes"][k] = cov["probes"].get(k, 0) + v
    # 4. replay the outcomes against Config.tla
    tr = os.path.join(wdir, "config_trace.ndjson")
    with open(tr, "w") as f:
        for nm in sorted(results):
            r = results[nm]
            c = r["cfg"]
            f.write(json.dumps({"name": nm, "std": c["std"], "features": sorted(c["features"]), "profile": c["profile"], "built": r["built"],
                                "has_transcript": r["digest"] is not None,
                                "digest": r["digest"] or ""}) + "\n")
    meta = os.path.join(WORK, "c16_trace_%d" % os.getpid())
    rc, out = V.tlc(os.path.join(ROOT, "spec"), "Config.tla", "Config.cfg", meta, workers=1, heap="1g",
                    env={"CONFIG_MODE": "trace", "CONFIG_TIER": tier, "TRACE": tr}, deque=True)
    if "TRACE_CONSUMED" not in out:
        raise V.ToolError("Config trace not consumed:\n" + out[-2000:])
    cov["traces_validated_against_impl"] += 1
    m = V.STATES_RE.findall(out)
    cov["states"] += int(m[-1][1])
    cov["transitions"] += int(m[-1][0])
    known = V.load_known()
    for ln, op, nm, reason in [(int(a), b, c, d) for a, b, c, d in V.BAD_RE.findall(out)]:
        km = V.known_match(known, pid, "config", "", reason, nm)
        if km:
            V.log("KNOWN-FINDING: property=%s %s (%s %s)" % (pid, km.get("what", ""), nm, reason))
            cov["extra"] = cov.get("extra", {})
            cov["extra"]["known_findings_hit_config"] = cov["extra"].get("known_findings_hit_config", 0) + 1
            continue
        rp = os.path.join(rdir, "config-%s-%s.log" % (nm.replace("/", "_").replace("+", "_"), reason))
        with open(rp, "w") as f:
            if nm in results:
                f.write(results[nm]["log"][-6000:] if reason == "build_failed" else json.dumps({k: v for k, v in results[nm].items() if k != "log"}, default=str))
            else:
                f.write(reason)
        violations.append(("configuration %s: %s" % (nm, reason), rp))
    # 5. every distinct transcript must itself be a behaviour NumTrace accepts
    cov["samples"].append({"configurations": sorted(results), "distinct_transcripts": len(files_by_digest)})
    for dg, (nm, files) in files_by_digest.items():
        with cf.ThreadPoolExecutor(max_workers=V.JOBS) as pool:
            futs = [pool.submit(V.validate_trace, f, "c16_%d" % k) for k, f in enumerate(files)]
            for k, fu in enumerate(futs):
                res = fu.result()
                cov["traces_validated_against_impl"] += 1
                cov["events"] += res["events"]
                cov["states"] += res["states"]
                cov["transitions"] += res["events"]
                if res["bads"]:
                    events = V.read_events(files[k])
                    for (ln, op, form, reason) in res["bads"][:10]:
                        owners = V.owners_of(op, reason)
                        if reason in ("value", "noncanon", "unexpected_panic", "unexpected_none"):
                            # a wrong result inside one configuration's transcript: reported as a note here; the
                            # owning property's check decides it (C16 itself is about builds and equality)
                            notes.append("NOTE transcript %s: BAD op=%s form=%s reason=%s (owners %s)" % (nm, op, form, reason, sorted(owners)))
        for f in files:
            if not os.environ.get("VERIF_KEEP"):
                os.remove(f)
    cov["cases"] += len(results)
    cov.setdefault("extra", {})
    cov["extra"]["configurations_built"] = sum(1 for r in results.values() if r["built"])
    cov["extra"]["configurations_total"] = len(results)
    cov["extra"]["transcripts_recorded"] = sum(1 for r in results.values() if r["digest"])
    cov["extra"]["distinct_transcript_digests"] = len(files_by_digest)
    cov["drivers"].append({"driver": "transcript", "profile": "per configuration", "shards": V.JOBS,
                           "cases": len(tcfgs), "events": sum(r.get("events", 0) for r in results.values()), "crashed_shards": 0})
