"""C20 custom step: the CostModel recurrence (TLC) against the work counter measured on the real code (drift report)."""
import json, os, re


def run(pid, tier, seed, cov, violations, notes, V):
    meta = os.path.join(V.WORK, "costmodel_%d" % os.getpid())
    rc, out = V.tlc(os.path.join(V.ROOT, "spec", "algo"), "CostModel.tla", "CostModel.cfg", meta, workers=2, heap="2g")
    m = re.search(r'<<"COSTMODEL", (".*")>>', out)
    st = V.STATES_RE.findall(out)
    if not m or "No error has been found" not in out:
        raise V.ToolError("CostModel did not complete (specification trouble):\n" + out[-2000:])
    model = {int(k): v for k, v in json.loads(json.loads(m.group(1))).items()}
    cov["states"] += int(st[-1][1])
    cov["transitions"] += int(st[-1][0])
    cov["model_runs"].append({"module": "CostModel.tla", "cfg": "CostModel.cfg", "generated": int(st[-1][0]), "distinct": int(st[-1][1]), "wall_s": 0, "ok": True})
    binpath = V.build_harness("release")
    tmp = os.path.join(V.WORK, pid, "cost_drift.ndjson")
    os.makedirs(os.path.dirname(tmp), exist_ok=True)
    V.record_shard(binpath, "cost", seed, tier, 0, 1, tmp, 600)
    ev = [json.loads(l) for l in open(tmp) if '"cost_table"' in l]
    os.remove(tmp)
    if not ev:
        return
    meas = {r["n"]: int.from_bytes(bytes(r["w"]["m"]), "little") for r in ev[0]["bal"]}
    drift = {str(n): {"model": model.get(n), "measured": meas.get(n), "rel": round(abs(model[n] - meas[n]) / meas[n], 5)} for n in sorted(model) if n in meas}
    cov.setdefault("extra", {})["cost_model_vs_measured"] = drift
    cov["samples"].append({"balanced_work": meas})
