#!/usr/bin/env python3
"""Print the per-check table of DESIGN.md section 0.2b from the evidence files (what the last run of each check covered)."""
import json, os, sys
ROOT = os.path.dirname(os.path.dirname(os.path.abspath(__file__)))


def k(n):
    if n >= 1_000_000:
        return "%.1f M" % (n / 1e6)
    if n >= 1000:
        return "%.0f k" % (n / 1e3)
    return str(n)


print("| ID | tier | recorded events validated by TLC | trace shards | model states (all TLC runs) | TLC-generated behaviours replayed | drivers | model modules | wall |")
print("|---|---|---|---|---|---|---|---|---|")
for i in range(1, 21):
    pid = "C%02d" % i
    p = os.path.join(ROOT, "evidence", pid + ".json")
    if not os.path.exists(p):
        continue
    e = json.load(open(p))
    c = e["coverage"]
    mods = []
    for m in c.get("model_runs", []):
        n = m["module"].replace(".tla", "")
        if n not in mods:
            mods.append(n)
    drivers = []
    for d in c.get("drivers", []):
        n = d if isinstance(d, str) else d.get("driver", "?")
        if n not in drivers:
            drivers.append(n)
    print("| %s | %s | %s | %s | %s | %s | %s | %s | %.0f s |" % (
        pid, e["tier"], k(c.get("events_validated", 0)), c.get("traces_validated_against_impl", 0), k(c.get("states", 0)),
        k(c.get("behaviours_replayed", 0)) if c.get("behaviours_replayed") else "-", ", ".join(drivers), ", ".join(mods), e["wall_s"]))
