"""Binding X step shared by C01 and C15: extract the asm! blocks from /repo and model-check them with AsmBlock."""
import os, re, shutil, subprocess, sys, time

FILES = {"add": ("src/biguint/addition.rs", "schoolbook_add_assign_x86_64"),
         "sub": ("src/biguint/subtraction.rs", "schoolbook_sub_assign_x86_64")}
# which invariant belongs to which property
OWN = {"C01": {"Contract"}, "C15": {"Safe", "RhsUntouched"}}


def run(pid, tier, seed, cov, violations, notes, V):
    ROOT, WORK = V.ROOT, V.WORK
    rdir = os.path.join(ROOT, "replays", pid)
    os.makedirs(rdir, exist_ok=True)
    cfgs = ["b2"] + (["b3", "b2n10"] if tier == "thorough" else [])
    for mode, (rel, fname) in FILES.items():
        gdir = os.path.join(WORK, "gen_%s_%s" % (pid, mode))
        shutil.rmtree(gdir, ignore_errors=True)
        os.makedirs(gdir)
        p = subprocess.run([sys.executable, os.path.join(ROOT, "tools", "extract_asm.py"), os.path.join(V.REPO, rel), fname, "AsmProg", gdir],
                           stdout=subprocess.PIPE, stderr=subprocess.STDOUT, text=True)
        if p.returncode == 3:
            if "not found" in p.stdout or "no asm! block" in p.stdout:
                notes.append("NOTE %s: no asm! block to check (%s)" % (fname, p.stdout.strip()))
                continue
            # an asm! block the interpreter cannot read (another instruction set, other addressing modes): the block is not
            # model-checked; the property is still decided on the recorded traces (values) and under the guard allocator (memory)
            notes.append("NOTE %s: asm! block outside the interpreter's subset, not model-checked (%s); decided by trace validation only" % (fname, p.stdout.strip()))
            cov.setdefault("extra", {}).setdefault("asm_not_modelled", []).append(fname)
            continue
        if p.returncode != 0:
            raise V.ToolError("asm extraction failed: " + p.stdout)
        cov.setdefault("extra", {}).setdefault("asm_extracted", []).append(p.stdout.strip())
        # operand-class note: an `in` register written by the program
        text = open(os.path.join(gdir, "AsmProg.tla")).read()
        ins = set(re.findall(r'(\w+) \|-> \[cls \|-> "in"', text))
        written = set(re.findall(r'op \|-> "(?:inc|dec|adc|sbb|add|sub|load|setc|movrr|xor|lea)", dst \|-> "(\w+)"', text))
        for rname in sorted(ins & written):
            notes.append("NOTE %s: operand `%s` is declared in(reg) but written by the block (asm! requires in-registers to be preserved)" % (fname, rname))
        for c in cfgs:
            cfg = "AsmBlock_%s_%s.cfg" % (mode, c)
            meta = os.path.join(WORK, "asm_%s_%s_%s_%d" % (pid, mode, c, os.getpid()))
            lib = ":".join([os.path.join(ROOT, "spec"), os.path.join(ROOT, "spec", "algo"), gdir])
            cmd = ["java", "-XX:+UseParallelGC", "-Xmx12g", "-cp", V.TLC_CP, "-DTLA-Library=" + lib, "tlc2.TLC", "-workers", str(V.JOBS),
                   "-metadir", meta, "-cleanup", "-noGenerateSpecTE", "-config", cfg, "AsmBlock.tla"]
            t0 = time.time()
            rc, out = V.run(cmd, cwd=os.path.join(ROOT, "spec", "algo"), env={"JAVA_TOOL_OPTIONS": "-Xss1g"}, timeout=3000)
            shutil.rmtree(meta, ignore_errors=True)
            m = V.STATES_RE.findall(out)
            gen, dist = (int(m[-1][0]), int(m[-1][1])) if m else (0, 0)
            cov["states"] += dist
            cov["transitions"] += gen
            ok = "Model checking completed. No error has been found." in out
            cov["model_runs"].append({"module": "AsmBlock.tla (program extracted from %s)" % rel, "cfg": cfg, "generated": gen, "distinct": dist,
                                      "wall_s": round(time.time() - t0, 1), "ok": ok})
            if ok:
                continue
            vm = re.search(r"Invariant (\w+) is violated", out)
            if not vm:
                raise V.ToolError("AsmBlock run did not complete:\n" + out[-3000:])
            inv = vm.group(1)
            rp = os.path.join(rdir, "asm-%s-%s-%s.log" % (mode, c, inv))
            k = out.find("Error: Invariant")
            open(rp, "w").write("extracted from %s\n%s" % (rel, out[k:k + 20000]))
            if inv in OWN.get(pid, ()):
                violations.append(("extracted %s block violates %s (TLC counterexample in the replay file)" % (mode, inv), rp))
            else:
                notes.append("NOTE extracted %s block violates %s (owned by %s)" % (mode, inv, [q for q, s in OWN.items() if inv in s]))


def forms_step(pid, tier, seed, cov, violations, notes, V):
    """C10: the forwarding-macro table extracted from the source, checked by algo/OpForms.tla"""
    ROOT, WORK = V.ROOT, V.WORK
    gdir = os.path.join(WORK, "gen_forms_%s" % pid)
    shutil.rmtree(gdir, ignore_errors=True)
    os.makedirs(gdir)
    p = subprocess.run([sys.executable, os.path.join(ROOT, "tools", "extract_forms.py"), os.path.join(V.REPO, "src"), gdir],
                       stdout=subprocess.PIPE, stderr=subprocess.STDOUT, text=True)
    if p.returncode != 0:
        raise V.ToolError("forwarding-macro extraction failed: " + p.stdout)
    meta = os.path.join(WORK, "opforms_%d" % os.getpid())
    lib = ":".join([os.path.join(ROOT, "spec", "algo"), gdir])
    cmd = ["timeout", "300", "java", "-Xmx2g", "-cp", V.TLC_CP, "-DTLA-Library=" + lib, "tlc2.TLC", "-workers", "1", "-metadir", meta, "-cleanup",
           "-noGenerateSpecTE", "-config", "OpForms.cfg", "OpForms.tla"]
    rc, out = V.run(cmd, cwd=os.path.join(ROOT, "spec", "algo"), timeout=400)
    shutil.rmtree(meta, ignore_errors=True)
    m = V.STATES_RE.findall(out)
    gen, dist = (int(m[-1][0]), int(m[-1][1])) if m else (0, 0)
    cov["states"] += dist
    cov["transitions"] += gen
    ok = "No error has been found" in out
    cov["model_runs"].append({"module": "OpForms.tla (table extracted from src/)", "cfg": "OpForms.cfg", "generated": gen, "distinct": dist, "wall_s": 0, "ok": ok})
    cov.setdefault("extra", {})["forwarding_macro_invocations"] = p.stdout.strip()
    if ok:
        return
    if "Invariant Inv is violated" not in out:
        raise V.ToolError("OpForms run did not complete:\n" + out[-2000:])
    rdir = os.path.join(ROOT, "replays", pid)
    os.makedirs(rdir, exist_ok=True)
    rp = os.path.join(rdir, "opforms-row.log")
    k = out.find("Error: Invariant")
    open(rp, "w").write(out[k:k + 4000])
    violations.append(("a forwarding macro that may swap operands serves a non-commutative operator, or forwards under the wrong method name", rp))
