//! Guard-page allocator for C15 runs (HARNESS_GUARD=end|start): every heap block ends at (or starts right
//! after) an inaccessible page, so an out-of-bounds access by unsafe code faults instead of passing silently.
//! Off by default: then it simply forwards to the system allocator.

use std::alloc::{GlobalAlloc, Layout, System};
use std::sync::atomic::{AtomicU8, Ordering};

pub struct Guard;
static MODE: AtomicU8 = AtomicU8::new(255);
const PAGE: usize = 4096;

fn mode() -> u8 {
    let m = MODE.load(Ordering::Relaxed);
    if m != 255 {
        return m;
    }
    // no allocation allowed here: read the environment through libc
    let v = unsafe { libc::getenv(b"HARNESS_GUARD\0".as_ptr() as *const libc::c_char) };
    let m = if v.is_null() {
        0
    } else {
        match unsafe { *v as u8 } {
            b'e' => 1,
            b's' => 2,
            _ => 0,
        }
    };
    MODE.store(m, Ordering::Relaxed);
    m
}
fn round_up(x: usize, a: usize) -> usize {
    (x + a - 1) & !(a - 1)
}

unsafe impl GlobalAlloc for Guard {
    unsafe fn alloc(&self, layout: Layout) -> *mut u8 {
        let m = mode();
        if m == 0 || layout.align() > PAGE {
            return System.alloc(layout);
        }
        let size = layout.size().max(1);
        let body = round_up(size, PAGE);
        let total = body + PAGE;
        let p = libc::mmap(std::ptr::null_mut(), total, libc::PROT_READ | libc::PROT_WRITE, libc::MAP_PRIVATE | libc::MAP_ANONYMOUS, -1, 0);
        if p == libc::MAP_FAILED {
            return std::ptr::null_mut();
        }
        let p = p as usize;
        if m == 1 {
            libc::mprotect((p + body) as *mut libc::c_void, PAGE, libc::PROT_NONE);
            ((p + body - size) & !(layout.align() - 1)) as *mut u8
        } else {
            libc::mprotect(p as *mut libc::c_void, PAGE, libc::PROT_NONE);
            (p + PAGE) as *mut u8
        }
    }
    unsafe fn dealloc(&self, ptr: *mut u8, layout: Layout) {
        let m = mode();
        if m == 0 || layout.align() > PAGE {
            return System.dealloc(ptr, layout);
        }
        let size = layout.size().max(1);
        let body = round_up(size, PAGE);
        let total = body + PAGE;
        let base = if m == 1 { round_up(ptr as usize + size, PAGE) - body } else { ptr as usize - PAGE };
        libc::munmap(base as *mut libc::c_void, total);
    }
}
