//! Trace recorder (binding V): drives the real library on a bank of registers and
//! writes one NDJSON event per call, in the vocabulary of spec/NumTrace.tla.
//!
//! Registers 1..=8 hold BigUint, 9..=16 hold BigInt (indices as TLC sees them).
//! Every call runs under catch_unwind; a panic is data (`"out":"panic"`).

use num_bigint::{BigInt, BigUint, Sign};
use std::fmt::Write as FmtWrite;
use std::io::Write;
use std::panic::{catch_unwind, AssertUnwindSafe};
static INFLIGHT: std::sync::OnceLock<Option<std::ffi::OsString>> = std::sync::OnceLock::new();

pub const NU: usize = 8;
pub const NI: usize = 8;

pub struct Regs {
    pub u: Vec<BigUint>,
    pub i: Vec<BigInt>,
}

impl Regs {
    fn new() -> Self {
        Regs {
            u: (0..NU).map(|_| BigUint::default()).collect(),
            i: (0..NI).map(|_| BigInt::default()).collect(),
        }
    }
}

/// TLC register index of BigUint register k (0-based)
pub const fn u(k: usize) -> usize {
    k + 1
}
/// TLC register index of BigInt register k (0-based)
pub const fn i(k: usize) -> usize {
    NU + k + 1
}

/// Deterministic generator (splitmix64) seeded from VERIF_SEED.
#[derive(Clone)]
pub struct Rng(pub u64);
impl Rng {
    pub fn next(&mut self) -> u64 {
        self.0 = self.0.wrapping_add(0x9E3779B97F4A7C15);
        let mut z = self.0;
        z = (z ^ (z >> 30)).wrapping_mul(0xBF58476D1CE4E5B9);
        z = (z ^ (z >> 27)).wrapping_mul(0x94D049BB133111EB);
        z ^ (z >> 31)
    }
    pub fn below(&mut self, n: u64) -> u64 {
        if n == 0 {
            0
        } else {
            self.next() % n
        }
    }
    pub fn pick<'a, T>(&mut self, xs: &'a [T]) -> &'a T {
        &xs[self.below(xs.len() as u64) as usize]
    }
    pub fn chance(&mut self, num: u64, den: u64) -> bool {
        self.below(den) < num
    }
}

/// What a call returned besides register contents: pre-rendered JSON members.
#[derive(Default)]
pub struct Ret(pub String);

impl Ret {
    pub fn none() -> Ret {
        Ret(String::new())
    }
    fn sep(&mut self) {
        if !self.0.is_empty() {
            self.0.push(',');
        }
    }
    pub fn some(mut self, v: bool) -> Ret {
        self.sep();
        let _ = write!(self.0, "\"some\":{}", v);
        self
    }
    pub fn b(mut self, v: bool) -> Ret {
        self.sep();
        let _ = write!(self.0, "\"b\":{}", v);
        self
    }
    pub fn n(mut self, v: i64) -> Ret {
        assert!(v.abs() < (1 << 31));
        self.sep();
        let _ = write!(self.0, "\"n\":{}", v);
        self
    }
    /// scalar results as sign/magnitude records
    pub fn z(mut self, vs: &[Sc]) -> Ret {
        self.sep();
        self.0.push_str("\"z\":");
        self.0.push_str(&sc_list(vs));
        self
    }
    pub fn bytes(mut self, key: &str, vs: &[u8]) -> Ret {
        self.sep();
        let _ = write!(self.0, "\"{}\":{}", key, bytes_json(vs));
        self
    }
    pub fn ints(mut self, key: &str, vs: &[i64]) -> Ret {
        self.sep();
        let _ = write!(self.0, "\"{}\":[", key);
        for (k, v) in vs.iter().enumerate() {
            assert!(v.abs() < (1 << 31));
            if k > 0 {
                self.0.push(',');
            }
            let _ = write!(self.0, "{}", v);
        }
        self.0.push(']');
        self
    }
    pub fn raw(mut self, key: &str, json: &str) -> Ret {
        self.sep();
        let _ = write!(self.0, "\"{}\":{}", key, json);
        self
    }
}

/// A primitive scalar as sign + little-endian magnitude bytes, with its type name.
#[derive(Clone, Debug)]
pub struct Sc {
    pub t: &'static str,
    pub neg: bool,
    pub m: Vec<u8>,
}

pub fn mag_bytes(mut v: u128) -> Vec<u8> {
    let mut out = Vec::new();
    while v != 0 {
        out.push((v & 0xff) as u8);
        v >>= 8;
    }
    out
}

pub trait ToSc: Copy {
    fn sc(self) -> Sc;
}
macro_rules! impl_tosc_u {
    ($($t:ident),*) => {$(
        impl ToSc for $t { fn sc(self) -> Sc { Sc { t: stringify!($t), neg: false, m: mag_bytes(self as u128) } } }
    )*};
}
macro_rules! impl_tosc_i {
    ($($t:ident),*) => {$(
        impl ToSc for $t { fn sc(self) -> Sc { Sc { t: stringify!($t), neg: self < 0, m: mag_bytes(self.unsigned_abs() as u128) } } }
    )*};
}
impl_tosc_u!(u8, u16, u32, u64, u128, usize);
impl_tosc_i!(i8, i16, i32, i64, i128, isize);

pub fn bytes_json(vs: &[u8]) -> String {
    let mut s = String::with_capacity(vs.len() * 4 + 2);
    s.push('[');
    for (k, v) in vs.iter().enumerate() {
        if k > 0 {
            s.push(',');
        }
        let _ = write!(s, "{}", v);
    }
    s.push(']');
    s
}

pub fn sc_json(v: &Sc) -> String {
    format!("{{\"t\":\"{}\",\"neg\":{},\"m\":{}}}", v.t, v.neg, bytes_json(&v.m))
}
pub fn sc_list(vs: &[Sc]) -> String {
    let mut s = String::from("[");
    for (k, v) in vs.iter().enumerate() {
        if k > 0 {
            s.push(',');
        }
        s.push_str(&sc_json(v));
    }
    s.push(']');
    s
}

/// raw digits -> bytes; at least one byte per stored digit survives, so a stored
/// high zero digit stays visible as a high zero byte.
pub fn raw_bytes(d: &[u64]) -> Vec<u8> {
    let mut out = Vec::with_capacity(d.len() * 8);
    for (k, w) in d.iter().enumerate() {
        let b = w.to_le_bytes();
        if k + 1 < d.len() {
            out.extend_from_slice(&b);
        } else {
            let mut n = 8;
            while n > 1 && b[n - 1] == 0 {
                n -= 1;
            }
            out.extend_from_slice(&b[..n]);
        }
    }
    out
}

pub fn val_json_u(x: &BigUint) -> String {
    let raw = x.verif_raw();
    format!("{{\"s\":{},\"d\":{}}}", if raw.is_empty() { 0 } else { 1 }, bytes_json(&raw_bytes(raw)))
}
pub fn val_json_i(x: &BigInt) -> String {
    let (s, raw) = x.verif_raw();
    let s = match s {
        Sign::Minus => -1,
        Sign::NoSign => 0,
        Sign::Plus => 1,
    };
    format!("{{\"s\":{},\"d\":{}}}", s, bytes_json(&raw_bytes(raw)))
}

#[derive(Clone, PartialEq)]
enum Snap {
    U(Vec<u64>),
    I(i8, Vec<u64>),
}

pub struct Rec {
    out: Box<dyn Write>,
    pub g: Regs,
    pub rng: Rng,
    pub shard: u64,
    pub nshards: u64,
    pub only: Option<u64>,
    pub case_no: u64,
    pub events: u64,
    pub driver: String,
    pub seed: u64,
    pub tier: String,
    pub profile: &'static str,
    pub thorough: bool,
    active: bool,
    pending: String,
    sample: u64,
    kept: u64,
}

impl Rec {
    pub fn new(out: Box<dyn Write>, driver: &str, seed: u64, tier: &str, shard: u64, nshards: u64, only: Option<u64>) -> Rec {
        Rec {
            out,
            g: Regs::new(),
            rng: Rng(seed ^ 0xA5A5_5A5A_1234_5678),
            shard,
            nshards,
            only,
            case_no: 0,
            events: 0,
            driver: driver.to_string(),
            seed,
            tier: tier.to_string(),
            profile: if cfg!(debug_assertions) { "debug" } else { "release" },
            thorough: tier == "thorough",
            active: false,
            pending: String::new(),
            sample: std::env::var("HARNESS_SAMPLE").ok().and_then(|x| x.parse().ok()).unwrap_or(1),
            kept: 0,
        }
    }

    /// Start a new case.  Returns false when this shard does not own it (the driver must
    /// then skip it, but must have drawn the same random numbers either way: drivers
    /// derive per-case generators with `case_rng`).
    pub fn case(&mut self, label: &str) -> bool {
        self.case_no += 1;
        // optional sampling (HARNESS_SAMPLE=N keeps about one case in N, the same ones in every shard layout)
        // (the seed moves the sample, so runs with different VERIF_SEED values look at different cases)
        // (cases that exercise documented failure cases or invalid arguments are never sampled away)
        let keep = self.sample <= 1 || label.starts_with("invalid") || label.starts_with("always") || ((self.case_no ^ self.seed.wrapping_mul(0x632B_E59B_D9B4_E019)).wrapping_mul(0x9E3779B97F4A7C15) >> 33) % self.sample == 0;
        if keep {
            self.kept += 1;
        }
        let mine = match self.only {
            Some(n) => n == self.case_no,
            None => keep && self.kept % self.nshards == self.shard,
        };
        self.active = mine;
        if mine {
            self.g = Regs::new();
            // the recording modes (guard allocator, dirty / roomy operands) travel with the case so that a replay re-records alike
            let modes: Vec<String> = ["HARNESS_GUARD", "HARNESS_DIRTY", "HARNESS_ROOMY"]
                .iter()
                .filter_map(|k| std::env::var(k).ok().map(|v| format!("\"{}\":\"{}\"", k, v)))
                .collect();
            let line = format!(
                "{{\"op\":\"case\",\"id\":{},\"label\":\"{}\",\"driver\":\"{}\",\"seed\":{},\"tier\":\"{}\",\"profile\":\"{}\",\"modes\":{{{}}}}}",
                self.case_no, label, self.driver, self.seed, self.tier, self.profile, modes.join(",")
            );
            self.emit(&line);
        }
        mine
    }

    /// Generator that depends only on (seed, case number), identical in every shard.
    pub fn case_rng(&self) -> Rng {
        Rng(self.seed.wrapping_mul(0x2545F4914F6CDD1D) ^ (self.case_no + 1).wrapping_mul(0x9E3779B97F4A7C15))
    }

    fn emit(&mut self, line: &str) {
        self.events += 1;
        self.out.write_all(line.as_bytes()).unwrap();
        self.out.write_all(b"\n").unwrap();
        // flushed per event so that a crash leaves the trace up to the last completed call
        self.out.flush().unwrap();
    }

    fn snap(&self, idx: usize) -> Snap {
        if idx <= NU {
            Snap::U(self.g.u[idx - 1].verif_raw().to_vec())
        } else {
            let (s, raw) = self.g.i[idx - NU - 1].verif_raw();
            Snap::I(
                match s {
                    Sign::Minus => -1,
                    Sign::NoSign => 0,
                    Sign::Plus => 1,
                },
                raw.to_vec(),
            )
        }
    }

    pub fn val_json(&self, idx: usize) -> String {
        if idx <= NU {
            val_json_u(&self.g.u[idx - 1])
        } else {
            val_json_i(&self.g.i[idx - NU - 1])
        }
    }

    fn zero_reg(&mut self, idx: usize) {
        if idx <= NU {
            self.g.u[idx - 1] = BigUint::default();
        } else {
            self.g.i[idx - NU - 1] = BigInt::default();
        }
    }

    /// One recorded call.  `src`: registers the call reads, `dst`: registers it may write
    /// (a register can be in both).  `extra`: further JSON members (",\"n\":[..]" style, without
    /// leading comma).  The closure performs the call on the register bank.
    pub fn op<F>(&mut self, name: &str, form: &str, src: &[usize], dst: &[usize], extra: &str, f: F) -> bool
    where
        F: FnOnce(&mut Regs) -> Ret,
    {
        debug_assert!(self.active);
        let before: Vec<(usize, Snap)> = src.iter().filter(|s| !dst.contains(s)).map(|&s| (s, self.snap(s))).collect();
        self.emit_begin(name);
        let g = &mut self.g;
        IN_OP.store(true, std::sync::atomic::Ordering::Relaxed);
        let res = catch_unwind(AssertUnwindSafe(|| f(g)));
        IN_OP.store(false, std::sync::atomic::Ordering::Relaxed);
        let mut line = String::with_capacity(256);
        let _ = write!(line, "{{\"op\":\"{}\",\"form\":\"{}\",\"src\":{:?},\"dst\":{:?}", name, form, src, dst);
        if !extra.is_empty() {
            line.push(',');
            line.push_str(extra);
        }
        if !self.pending.is_empty() {
            line.push(',');
            line.push_str(&self.pending);
            self.pending.clear();
        }
        let ok = match res {
            Ok(ret) => {
                let same = before.iter().all(|(s, b)| self.snap(*s) == *b);
                let _ = write!(line, ",\"out\":\"ok\",\"same\":{},\"post\":[", same);
                for (k, d) in dst.iter().enumerate() {
                    if k > 0 {
                        line.push(',');
                    }
                    line.push_str(&self.val_json(*d));
                }
                line.push(']');
                let _ = write!(line, ",\"ret\":{{{}}}", ret.0);
                true
            }
            Err(_) => {
                for d in dst {
                    self.zero_reg(*d);
                }
                let same = before.iter().all(|(s, b)| self.snap(*s) == *b);
                let _ = write!(line, ",\"out\":\"panic\",\"same\":{},\"post\":[],\"ret\":{{}}", same);
                false
            }
        };
        line.push('}');
        self.emit(&line);
        ok
    }

    /// extra JSON members for the next recorded call only
    pub fn x(&mut self, extra: String) -> &mut Self {
        self.pending = extra;
        self
    }

    /// marker written (and flushed) before the call so that a crash or hang is attributable
    fn emit_begin(&mut self, name: &str) {
        // HARNESS_INFLIGHT names a side file that always holds the operation currently in flight: when the process dies
        // inside a call (abort, stack overflow, SIGFPE, time-out) the checker reads it and attributes the `crashed` event
        if let Some(p) = INFLIGHT.get_or_init(|| std::env::var_os("HARNESS_INFLIGHT")) {
            let _ = std::fs::write(p, name);
        }
    }

    pub fn is_active(&self) -> bool {
        self.active
    }
}

pub static IN_OP: std::sync::atomic::AtomicBool = std::sync::atomic::AtomicBool::new(false);

/// panics inside a recorded call are data and stay silent; a panic of the harness itself is reported
pub fn silence_panics() {
    std::panic::set_hook(Box::new(|info| {
        if !IN_OP.load(std::sync::atomic::Ordering::Relaxed) {
            eprintln!("HARNESS PANIC (outside a recorded call): {}", info);
        }
    }));
}

// ---- typed convenience wrappers (register numbers are 0-based within their bank) ----
impl Rec {
    pub fn uu<F: FnOnce(&BigUint, &BigUint) -> BigUint>(&mut self, name: &str, form: &str, a: usize, b: usize, d: usize, f: F) -> bool {
        self.op(name, form, &[u(a), u(b)], &[u(d)], "\"ty\":\"U\"", |g| {
            let v = f(&g.u[a], &g.u[b]);
            g.u[d] = v;
            Ret::none()
        })
    }
    pub fn ii<F: FnOnce(&BigInt, &BigInt) -> BigInt>(&mut self, name: &str, form: &str, a: usize, b: usize, d: usize, f: F) -> bool {
        self.op(name, form, &[i(a), i(b)], &[i(d)], "\"ty\":\"I\"", |g| {
            let v = f(&g.i[a], &g.i[b]);
            g.i[d] = v;
            Ret::none()
        })
    }
    pub fn uu_opt<F: FnOnce(&BigUint, &BigUint) -> Option<BigUint>>(&mut self, name: &str, form: &str, a: usize, b: usize, d: usize, f: F) -> bool {
        self.op(name, form, &[u(a), u(b)], &[u(d)], "\"ty\":\"U\"", |g| {
            let v = f(&g.u[a], &g.u[b]);
            let some = v.is_some();
            g.u[d] = v.unwrap_or_default();
            Ret::none().some(some)
        })
    }
    pub fn ii_opt<F: FnOnce(&BigInt, &BigInt) -> Option<BigInt>>(&mut self, name: &str, form: &str, a: usize, b: usize, d: usize, f: F) -> bool {
        self.op(name, form, &[i(a), i(b)], &[i(d)], "\"ty\":\"I\"", |g| {
            let v = f(&g.i[a], &g.i[b]);
            let some = v.is_some();
            g.i[d] = v.unwrap_or_default();
            Ret::none().some(some)
        })
    }
    /// two results (quotient, remainder style)
    pub fn uu2<F: FnOnce(&BigUint, &BigUint) -> (BigUint, BigUint)>(&mut self, name: &str, form: &str, a: usize, b: usize, d1: usize, d2: usize, f: F) -> bool {
        self.op(name, form, &[u(a), u(b)], &[u(d1), u(d2)], "\"ty\":\"U\"", |g| {
            let (x, y) = f(&g.u[a], &g.u[b]);
            g.u[d1] = x;
            g.u[d2] = y;
            Ret::none()
        })
    }
    pub fn ii2<F: FnOnce(&BigInt, &BigInt) -> (BigInt, BigInt)>(&mut self, name: &str, form: &str, a: usize, b: usize, d1: usize, d2: usize, f: F) -> bool {
        self.op(name, form, &[i(a), i(b)], &[i(d1), i(d2)], "\"ty\":\"I\"", |g| {
            let (x, y) = f(&g.i[a], &g.i[b]);
            g.i[d1] = x;
            g.i[d2] = y;
            Ret::none()
        })
    }
    pub fn uu2_opt<F: FnOnce(&BigUint, &BigUint) -> Option<(BigUint, BigUint)>>(&mut self, name: &str, form: &str, a: usize, b: usize, d1: usize, d2: usize, f: F) -> bool {
        self.op(name, form, &[u(a), u(b)], &[u(d1), u(d2)], "\"ty\":\"U\"", |g| {
            let v = f(&g.u[a], &g.u[b]);
            let some = v.is_some();
            let (x, y) = v.unwrap_or_default();
            g.u[d1] = x;
            g.u[d2] = y;
            Ret::none().some(some)
        })
    }
    pub fn ii2_opt<F: FnOnce(&BigInt, &BigInt) -> Option<(BigInt, BigInt)>>(&mut self, name: &str, form: &str, a: usize, b: usize, d1: usize, d2: usize, f: F) -> bool {
        self.op(name, form, &[i(a), i(b)], &[i(d1), i(d2)], "\"ty\":\"I\"", |g| {
            let v = f(&g.i[a], &g.i[b]);
            let some = v.is_some();
            let (x, y) = v.unwrap_or_default();
            g.i[d1] = x;
            g.i[d2] = y;
            Ret::none().some(some)
        })
    }
    /// in-place: d op= s
    pub fn u_assign<F: FnOnce(&mut BigUint, &BigUint)>(&mut self, name: &str, form: &str, d: usize, s: usize, f: F) -> bool {
        assert!(d != s);
        self.op(name, form, &[u(d), u(s)], &[u(d)], "\"ty\":\"U\"", |g| {
            let sv = std::mem::take(&mut g.u[s]);
            let r = catch_unwind(AssertUnwindSafe(|| f(&mut g.u[d], &sv)));
            g.u[s] = sv;
            if let Err(e) = r {
                std::panic::resume_unwind(e);
            }
            Ret::none()
        })
    }
    pub fn i_assign<F: FnOnce(&mut BigInt, &BigInt)>(&mut self, name: &str, form: &str, d: usize, s: usize, f: F) -> bool {
        assert!(d != s);
        self.op(name, form, &[i(d), i(s)], &[i(d)], "\"ty\":\"I\"", |g| {
            let sv = std::mem::take(&mut g.i[s]);
            let r = catch_unwind(AssertUnwindSafe(|| f(&mut g.i[d], &sv)));
            g.i[s] = sv;
            if let Err(e) = r {
                std::panic::resume_unwind(e);
            }
            Ret::none()
        })
    }
    /// unary BigUint -> BigUint
    pub fn u1<F: FnOnce(&BigUint) -> BigUint>(&mut self, name: &str, form: &str, extra: &str, a: usize, d: usize, f: F) -> bool {
        let ex = if extra.is_empty() { "\"ty\":\"U\"".to_string() } else { format!("\"ty\":\"U\",{}", extra) };
        self.op(name, form, &[u(a)], &[u(d)], &ex, |g| {
            let v = f(&g.u[a]);
            g.u[d] = v;
            Ret::none()
        })
    }
    pub fn i1<F: FnOnce(&BigInt) -> BigInt>(&mut self, name: &str, form: &str, extra: &str, a: usize, d: usize, f: F) -> bool {
        let ex = if extra.is_empty() { "\"ty\":\"I\"".to_string() } else { format!("\"ty\":\"I\",{}", extra) };
        self.op(name, form, &[i(a)], &[i(d)], &ex, |g| {
            let v = f(&g.i[a]);
            g.i[d] = v;
            Ret::none()
        })
    }
    /// in-place unary on one register
    pub fn u_mut<F: FnOnce(&mut BigUint)>(&mut self, name: &str, form: &str, extra: &str, d: usize, f: F) -> bool {
        let ex = if extra.is_empty() { "\"ty\":\"U\"".to_string() } else { format!("\"ty\":\"U\",{}", extra) };
        self.op(name, form, &[u(d)], &[u(d)], &ex, |g| {
            f(&mut g.u[d]);
            Ret::none()
        })
    }
    pub fn i_mut<F: FnOnce(&mut BigInt)>(&mut self, name: &str, form: &str, extra: &str, d: usize, f: F) -> bool {
        let ex = if extra.is_empty() { "\"ty\":\"I\"".to_string() } else { format!("\"ty\":\"I\",{}", extra) };
        self.op(name, form, &[i(d)], &[i(d)], &ex, |g| {
            f(&mut g.i[d]);
            Ret::none()
        })
    }
    /// query: reads registers, returns only a primitive
    pub fn q_u<F: FnOnce(&BigUint) -> Ret>(&mut self, name: &str, form: &str, extra: &str, a: usize, f: F) -> bool {
        let ex = if extra.is_empty() { "\"ty\":\"U\"".to_string() } else { format!("\"ty\":\"U\",{}", extra) };
        self.op(name, form, &[u(a)], &[], &ex, |g| f(&g.u[a]))
    }
    pub fn q_i<F: FnOnce(&BigInt) -> Ret>(&mut self, name: &str, form: &str, extra: &str, a: usize, f: F) -> bool {
        let ex = if extra.is_empty() { "\"ty\":\"I\"".to_string() } else { format!("\"ty\":\"I\",{}", extra) };
        self.op(name, form, &[i(a)], &[], &ex, |g| f(&g.i[a]))
    }
    /// register copy through Clone
    pub fn clone_u(&mut self, s: usize, d: usize) {
        self.op("clone", "clone", &[u(s)], &[u(d)], "\"ty\":\"U\"", |g| {
            g.u[d] = g.u[s].roomy();
            Ret::none()
        });
    }
    pub fn clone_i(&mut self, s: usize, d: usize) {
        self.op("clone", "clone", &[i(s)], &[i(d)], "\"ty\":\"I\"", |g| {
            g.i[d] = g.i[s].roomy();
            Ret::none()
        });
    }
}

/// `clone()`, except that under HARNESS_ROOMY the copy owns spare capacity (three times its length plus 80 digits), as a
/// value does that was shrunk in place by earlier operations: by-value and in-place operator forms then run on operands
/// whose buffer could hold the result, which is the state a capacity-keyed fast path looks at.
pub trait Roomy {
    fn roomy(&self) -> Self;
}
fn roomy_on() -> bool {
    use std::sync::OnceLock;
    static ON: OnceLock<bool> = OnceLock::new();
    *ON.get_or_init(|| std::env::var_os("HARNESS_ROOMY").is_some())
}
impl Roomy for num_bigint::BigUint {
    fn roomy(&self) -> Self {
        let mut c = self.clone();
        if roomy_on() {
            c.verif_reserve(2 * self.verif_raw().len() + 80);
        }
        c
    }
}
impl Roomy for num_bigint::BigInt {
    fn roomy(&self) -> Self {
        let mut c = self.clone();
        if roomy_on() {
            c.verif_reserve(2 * self.magnitude().verif_raw().len() + 80);
        }
        c
    }
}

/// operand selectors for scalar forms: 'r' = next source register, 'c' = next scalar
pub fn args(pat: &str) -> String {
    let mut out = String::from("\"args\":[");
    let (mut nr, mut nc) = (0, 0);
    for (k, ch) in pat.chars().enumerate() {
        if k > 0 {
            out.push(',');
        }
        if ch == 'r' {
            nr += 1;
            out.push_str(&format!("{{\"r\":{}}}", nr));
        } else {
            nc += 1;
            out.push_str(&format!("{{\"c\":{}}}", nc));
        }
    }
    out.push(']');
    out
}
/// extra members for a scalar form: type, scalars, operand selectors
pub fn ex_sc(ty: &str, scs: &[Sc], pat: &str) -> String {
    format!("\"ty\":\"{}\",\"sc\":{},{}", ty, sc_list(scs), args(pat))
}
