//! Conformance harness for the TLA+ specification of num-bigint.
//!   harness record --driver D --seed S --tier quick|thorough --shard K --nshards N --out FILE [--only CASE]
//!   harness probes   (print probe names)
#![allow(irrefutable_let_patterns, dead_code, unused_imports, unused_variables, unused_macros)]
mod drivers;
mod gen;
mod guard;
mod hint;
mod rec;
mod replay;

#[global_allocator]
static ALLOC: guard::Guard = guard::Guard;

use std::fs::File;
use std::io::BufWriter;

fn arg(args: &[String], key: &str) -> Option<String> {
    args.iter().position(|a| a == key).and_then(|p| args.get(p + 1).cloned())
}

fn main() {
    let args: Vec<String> = std::env::args().collect();
    if args.len() < 2 {
        eprintln!("usage: harness record|probes ...");
        std::process::exit(2);
    }
    match args[1].as_str() {
        "record" => {
            let driver = arg(&args, "--driver").expect("--driver");
            let seed: u64 = arg(&args, "--seed").map(|s| s.parse().unwrap()).unwrap_or(0);
            let tier = arg(&args, "--tier").unwrap_or_else(|| "quick".into());
            let shard: u64 = arg(&args, "--shard").map(|s| s.parse().unwrap()).unwrap_or(0);
            let nshards: u64 = arg(&args, "--nshards").map(|s| s.parse().unwrap()).unwrap_or(1);
            let only: Option<u64> = arg(&args, "--only").map(|s| s.parse().unwrap());
            let out = arg(&args, "--out").expect("--out");
            let w = Box::new(BufWriter::new(File::create(&out).expect("create out")));
            rec::silence_panics();
            num_bigint::verif_probe::reset();
            let mut r = rec::Rec::new(w, &driver, seed, &tier, shard, nshards, only);
            if !drivers::run(&driver, &mut r) {
                eprintln!("unknown driver {}", driver);
                std::process::exit(2);
            }
            // probe summary on stdout: name=value
            let snap = num_bigint::verif_probe::snapshot();
            let mut s = String::new();
            for (k, v) in snap.iter().enumerate() {
                if *v > 0 {
                    s.push_str(&format!("{}={} ", num_bigint::verif_probe::NAMES[k], v));
                }
            }
            println!("PROBES {}", s);
            println!("DONE cases={} events={}", r.case_no, r.events);
        }
        "replay-iter" => {
            rec::silence_panics();
            rec::IN_OP.store(true, std::sync::atomic::Ordering::Relaxed);
            let (n, bad, out) = replay::replay_iter(&args[2]);
            for o in out {
                println!("MISMATCH {}", o);
            }
            println!("REPLAYED behaviours={} mismatches={}", n, bad);
        }
        "replay-machine" => {
            rec::silence_panics();
            rec::IN_OP.store(true, std::sync::atomic::Ordering::Relaxed);
            let (n, bad, out) = replay::replay_machine(&args[2], 2);
            for o in out {
                println!("MISMATCH {}", o);
            }
            println!("REPLAYED behaviours={} mismatches={}", n, bad);
        }
        "probes" => {
            for n in num_bigint::verif_probe::NAMES {
                println!("{}", n);
            }
        }
        _ => {
            eprintln!("unknown command");
            std::process::exit(2);
        }
    }
}
