//! Operand generation: landmark digits, carry-chain patterns, loaders.

use crate::rec::{bytes_json, i, u, Rec, Ret, Rng, NU};
use num_bigint::{BigInt, BigUint, Sign};

pub const LANDMARKS: [u64; 8] = [0, 1, 2, (1 << 63) - 1, 1 << 63, (1 << 63) + 1, u64::MAX - 1, u64::MAX];

#[derive(Clone, Copy, Debug, PartialEq)]
pub enum Pat {
    Ones,     // all digits MAX
    Random,   // dense random
    Landmark, // random landmark digits
    OneDigit, // a single non-zero digit (at a random position), rest zero
    LowZeros, // low half zero digits, rest random
    Sparse,   // mostly zero digits
    Pow2,     // a single bit
    Pow2m1,   // 2^k - 1
    MaxM1,    // B^n - 2 .. : all ones except lowest digit MAX-1
    HighOne,  // top digit 1, rest all ones
}
pub const PATS: [Pat; 10] =
    [Pat::Ones, Pat::Random, Pat::Landmark, Pat::OneDigit, Pat::LowZeros, Pat::Sparse, Pat::Pow2, Pat::Pow2m1, Pat::MaxM1, Pat::HighOne];

/// `len` digits following the pattern; the top digit is non-zero when len > 0.
pub fn digits(rng: &mut Rng, len: usize, pat: Pat) -> Vec<u64> {
    if len == 0 {
        return vec![];
    }
    let mut d = vec![0u64; len];
    match pat {
        Pat::Ones => d.iter_mut().for_each(|x| *x = u64::MAX),
        Pat::Random => d.iter_mut().for_each(|x| *x = rng.next()),
        Pat::Landmark => d.iter_mut().for_each(|x| *x = *rng.pick(&LANDMARKS)),
        Pat::OneDigit => {
            let p = rng.below(len as u64) as usize;
            d[p] = *rng.pick(&LANDMARKS[1..]);
            if p != len - 1 {
                // keep the requested length: the top digit must be non-zero
                d[len - 1] = 1;
            }
        }
        Pat::LowZeros => {
            for x in d.iter_mut().skip(len / 2) {
                *x = rng.next();
            }
        }
        Pat::Sparse => {
            for x in d.iter_mut() {
                if rng.chance(1, 4) {
                    *x = *rng.pick(&LANDMARKS);
                }
            }
        }
        Pat::Pow2 => d[len - 1] = 1u64 << rng.below(64),
        Pat::Pow2m1 => {
            d.iter_mut().for_each(|x| *x = u64::MAX);
            let k = rng.below(64);
            d[len - 1] = if k == 63 { u64::MAX } else { (1u64 << (k + 1)) - 1 };
        }
        Pat::MaxM1 => {
            d.iter_mut().for_each(|x| *x = u64::MAX);
            d[0] = u64::MAX - 1;
        }
        Pat::HighOne => {
            d.iter_mut().for_each(|x| *x = u64::MAX);
            d[len - 1] = 1;
        }
    }
    if d[len - 1] == 0 {
        d[len - 1] = 1 + rng.below(u64::MAX);
    }
    d
}

/// like `digits`, choosing the pattern from `pats`
pub fn digits_p(rng: &mut Rng, len: usize, pats: &[Pat]) -> Vec<u64> {
    let p = *rng.pick(pats);
    digits(rng, len, p)
}

/// hierarchical pattern: halves are recursively all-zero / all-ones / near-ones / random blocks, so that
/// the differences formed by divide-and-conquer multiplication are extreme at several recursion levels
pub fn hier(rng: &mut Rng, len: usize) -> Vec<u64> {
    fn fill(rng: &mut Rng, d: &mut [u64]) {
        let n = d.len();
        if n == 0 {
            return;
        }
        let k = rng.below(if n > 8 { 8 } else { 5 });
        match k {
            0 => d.iter_mut().for_each(|x| *x = 0),
            1 => d.iter_mut().for_each(|x| *x = u64::MAX),
            2 => {
                d.iter_mut().for_each(|x| *x = u64::MAX);
                d[0] = u64::MAX - 1;
            }
            3 => {
                d.iter_mut().for_each(|x| *x = 0);
                d[0] = 1 + rng.below(2);
            }
            4 => d.iter_mut().for_each(|x| *x = rng.next()),
            _ => {
                // odd and even splits both occur in the code: split at floor(n/2)
                let (lo, hi) = d.split_at_mut(n / 2);
                fill(rng, lo);
                fill(rng, hi);
            }
        }
    }
    let mut d = vec![0u64; len];
    if len == 0 {
        return d;
    }
    let (lo, hi) = d.split_at_mut(len / 2);
    fill(rng, lo);
    fill(rng, hi);
    if d[len - 1] == 0 {
        d[len - 1] = u64::MAX;
    }
    d
}

pub fn le_bytes(d: &[u64]) -> Vec<u8> {
    let mut out = Vec::with_capacity(d.len() * 8);
    for w in d {
        out.extend_from_slice(&w.to_le_bytes());
    }
    out
}
pub fn u32_words(d: &[u64]) -> Vec<u32> {
    let mut out = Vec::with_capacity(d.len() * 2);
    for w in d {
        out.push(*w as u32);
        out.push((*w >> 32) as u32);
    }
    out
}

pub fn words_json(ws: &[u32]) -> String {
    // each word as 4 bytes, flattened: TLC reads them as base-256 digits directly
    let mut b = Vec::with_capacity(ws.len() * 4);
    for w in ws {
        b.extend_from_slice(&w.to_le_bytes());
    }
    bytes_json(&b)
}

fn sgn_num(s: Sign) -> i32 {
    match s {
        Sign::Minus => -1,
        Sign::NoSign => 0,
        Sign::Plus => 1,
    }
}

/// Load BigUint register `k` (0-based) through `from_bytes_le` (an operation under test: C09).
pub fn load_u(r: &mut Rec, k: usize, d: &[u64]) {
    let bytes = le_bytes(d);
    let extra = format!("\"bytes\":{}", bytes_json(&bytes));
    let tight = std::env::var_os("HARNESS_GUARD").is_some();
    let dirty = std::env::var_os("HARNESS_DIRTY").is_some();
    let roomy = std::env::var_os("HARNESS_ROOMY").is_some();
    r.op("from_bytes_le", "U", &[], &[u(k)], &extra, |g| {
        if dirty {
            // same value, but built by shrinking a longer one in place: non-zero memory behind the digits
            let mut junk = vec![0xA5u8; 32];
            junk.extend_from_slice(&bytes);
            let mut x = BigUint::from_bytes_le(&junk);
            x >>= 256u32;
            g.u[k] = x;
        } else {
            g.u[k] = BigUint::from_bytes_le(&bytes);
        }
        if tight {
            // the digits exactly fill their allocation
            g.u[k].verif_shrink();
        }
        if roomy && k % 2 == 0 {
            // even registers keep the large buffer of an in-place predecessor, odd ones stay as allocated: binary operations
            // then meet operands whose capacities are ordered differently from their lengths
            g.u[k].verif_reserve(2 * d.len() + 80);
        }
        Ret::none()
    });
}

/// Load BigUint register `k` through `BigUint::new(Vec<u32>)`.
pub fn load_u_words(r: &mut Rec, k: usize, d: &[u64]) {
    let ws = u32_words(d);
    let extra = format!("\"words\":{}", words_json(&ws));
    r.op("new_u32", "U", &[], &[u(k)], &extra, |g| {
        g.u[k] = BigUint::new(ws.clone());
        Ret::none()
    });
}

/// Load BigInt register `k` through `BigInt::from_bytes_le(sign, bytes)`.
pub fn load_i(r: &mut Rec, k: usize, sign: Sign, d: &[u64]) {
    let bytes = le_bytes(d);
    let extra = format!("\"bytes\":{},\"sgn\":{}", bytes_json(&bytes), sgn_num(sign));
    r.op("from_bytes_le", "I", &[], &[i(k)], &extra, |g| {
        g.i[k] = BigInt::from_bytes_le(sign, &bytes);
        Ret::none()
    });
}

/// BigInt register `k` := from_biguint(sign, BigUint register `s`)
pub fn load_i_from_u(r: &mut Rec, k: usize, sign: Sign, s: usize) {
    let extra = format!("\"sgn\":{}", sgn_num(sign));
    r.op("from_biguint", "I", &[u(s)], &[i(k)], &extra, |g| {
        g.i[k] = BigInt::from_biguint(sign, g.u[s].clone());
        if std::env::var_os("HARNESS_ROOMY").is_some() && k % 2 == 0 {
            let n = g.u[s].verif_raw().len();
            g.i[k].verif_reserve(2 * n + 80);
        }
        Ret::none()
    });
}

pub fn is_u(idx: usize) -> bool {
    idx <= NU
}
