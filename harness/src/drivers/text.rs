//! C06 driver: radix / text export and import, formatter flags, parser language.

use crate::gen::*;
use crate::rec::*;
use num_bigint::{BigInt, BigUint, Sign};
use num_traits::Num;
use std::str::FromStr;

fn text_json(s: &[u8]) -> String {
    bytes_json(s)
}
fn sgn_num(s: Sign) -> i64 {
    match s {
        Sign::Minus => -1,
        Sign::NoSign => 0,
        Sign::Plus => 1,
    }
}

pub fn to_str_u(r: &mut Rec, radix: u32) {
    r.q_u("to_str_radix", "method", &format!("\"radix\":{}", radix), 0, |a| Ret::none().bytes("text", a.to_str_radix(radix).as_bytes()));
}
pub fn to_str_i(r: &mut Rec, radix: u32) {
    r.q_i("to_str_radix", "method", &format!("\"radix\":{}", radix), 0, |a| Ret::none().bytes("text", a.to_str_radix(radix).as_bytes()));
}
pub fn to_radix_u(r: &mut Rec, radix: u32) {
    r.q_u("to_radix_le", "method", &format!("\"radix\":{}", radix), 0, |a| Ret::none().bytes("bytes", &a.to_radix_le(radix)));
    r.q_u("to_radix_be", "method", &format!("\"radix\":{}", radix), 0, |a| Ret::none().bytes("bytes", &a.to_radix_be(radix)));
}
pub fn to_radix_i(r: &mut Rec, radix: u32) {
    r.q_i("to_radix_le", "method", &format!("\"radix\":{}", radix), 0, |a| {
        let (s, d) = a.to_radix_le(radix);
        Ret::none().n(sgn_num(s)).bytes("bytes", &d)
    });
    r.q_i("to_radix_be", "method", &format!("\"radix\":{}", radix), 0, |a| {
        let (s, d) = a.to_radix_be(radix);
        Ret::none().n(sgn_num(s)).bytes("bytes", &d)
    });
}

/// parse `text` in `radix` through every entry point, into u2 / i2
pub fn parse_all(r: &mut Rec, text: &[u8], radix: u32) {
    let ex = format!("\"text\":{},\"radix\":{}", text_json(text), radix);
    if let Ok(s) = std::str::from_utf8(text) {
        r.op("parse", "U_from_str_radix", &[], &[u(2)], &format!("\"ty\":\"U\",{}", ex), |g| {
            let v = BigUint::from_str_radix(s, radix);
            let some = v.is_ok();
            g.u[2] = v.unwrap_or_default();
            Ret::none().some(some)
        });
        r.op("parse", "I_from_str_radix", &[], &[i(2)], &format!("\"ty\":\"I\",{}", ex), |g| {
            let v = BigInt::from_str_radix(s, radix);
            let some = v.is_ok();
            g.i[2] = v.unwrap_or_default();
            Ret::none().some(some)
        });
        if radix == 10 {
            r.op("parse", "U_from_str", &[], &[u(2)], &format!("\"ty\":\"U\",{}", ex), |g| {
                let v = BigUint::from_str(s);
                let some = v.is_ok();
                g.u[2] = v.unwrap_or_default();
                Ret::none().some(some)
            });
            r.op("parse", "I_str_parse", &[], &[i(2)], &format!("\"ty\":\"I\",{}", ex), |g| {
                let v = s.parse::<BigInt>();
                let some = v.is_ok();
                g.i[2] = v.unwrap_or_default();
                Ret::none().some(some)
            });
        }
    }
    r.op("parse", "U_parse_bytes", &[], &[u(2)], &format!("\"ty\":\"U\",{}", ex), |g| {
        let v = BigUint::parse_bytes(text, radix);
        let some = v.is_some();
        g.u[2] = v.unwrap_or_default();
        Ret::none().some(some)
    });
    r.op("parse", "I_parse_bytes", &[], &[i(2)], &format!("\"ty\":\"I\",{}", ex), |g| {
        let v = BigInt::parse_bytes(text, radix);
        let some = v.is_some();
        g.i[2] = v.unwrap_or_default();
        Ret::none().some(some)
    });
}

/// import a digit slice (little endian given) through from_radix_le / from_radix_be, both types
pub fn from_radix_all(r: &mut Rec, le: &[u8], radix: u32, sign: Sign) {
    let be: Vec<u8> = le.iter().rev().cloned().collect();
    let ex = |d: &[u8]| format!("\"digits\":{},\"radix\":{}", bytes_json(d), radix);
    r.op("from_radix_le", "U", &[], &[u(2)], &format!("\"ty\":\"U\",{}", ex(le)), |g| {
        let v = BigUint::from_radix_le(le, radix);
        let some = v.is_some();
        g.u[2] = v.unwrap_or_default();
        Ret::none().some(some)
    });
    r.op("from_radix_be", "U", &[], &[u(2)], &format!("\"ty\":\"U\",{}", ex(&be)), |g| {
        let v = BigUint::from_radix_be(&be, radix);
        let some = v.is_some();
        g.u[2] = v.unwrap_or_default();
        Ret::none().some(some)
    });
    r.op("from_radix_le", "I", &[], &[i(2)], &format!("\"ty\":\"I\",\"sgn\":{},{}", sgn_num(sign), ex(le)), |g| {
        let v = BigInt::from_radix_le(sign, le, radix);
        let some = v.is_some();
        g.i[2] = v.unwrap_or_default();
        Ret::none().some(some)
    });
    r.op("from_radix_be", "I", &[], &[i(2)], &format!("\"ty\":\"I\",\"sgn\":{},{}", sgn_num(sign), ex(&be)), |g| {
        let v = BigInt::from_radix_be(sign, &be, radix);
        let some = v.is_some();
        g.i[2] = v.unwrap_or_default();
        Ret::none().some(some)
    });
}

/// formatter matrix: (literal, kind, plus, alt, zero, width, fill, align)  align: 0 none, 1 left, 2 center, 3 right
macro_rules! fmt_specs {
    ($m:ident) => {
        $m!("{}", "d", false, false, false, 0, 32, 0);
        $m!("{:?}", "d", false, false, false, 0, 32, 0);
        $m!("{:+}", "d", true, false, false, 0, 32, 0);
        $m!("{:5}", "d", false, false, false, 5, 32, 0);
        $m!("{:<7}", "d", false, false, false, 7, 32, 1);
        $m!("{:^8}", "d", false, false, false, 8, 32, 2);
        $m!("{:>9}", "d", false, false, false, 9, 32, 3);
        $m!("{:*^+9}", "d", true, false, false, 9, 42, 2);
        $m!("{:08}", "d", false, false, true, 8, 32, 0);
        $m!("{:+012}", "d", true, false, true, 12, 32, 0);
        $m!("{:x<+012}", "d", true, false, true, 12, 120, 1);
        $m!("{:30}", "d", false, false, false, 30, 32, 0);
        $m!("{:.3}", "d", false, false, false, 0, 32, 0);
        $m!("{:#}", "d", false, true, false, 0, 32, 0);
        $m!("{:b}", "b", false, false, false, 0, 32, 0);
        $m!("{:#b}", "b", false, true, false, 0, 32, 0);
        $m!("{:+#b}", "b", true, true, false, 0, 32, 0);
        $m!("{:#012b}", "b", false, true, true, 12, 32, 0);
        $m!("{:_>14b}", "b", false, false, false, 14, 95, 3);
        $m!("{:o}", "o", false, false, false, 0, 32, 0);
        $m!("{:#o}", "o", false, true, false, 0, 32, 0);
        $m!("{:+o}", "o", true, false, false, 0, 32, 0);
        $m!("{:06o}", "o", false, false, true, 6, 32, 0);
        $m!("{:+#010o}", "o", true, true, true, 10, 32, 0);
        $m!("{:^#11o}", "o", false, true, false, 11, 32, 2);
        $m!("{:x}", "x", false, false, false, 0, 32, 0);
        $m!("{:#x}", "x", false, true, false, 0, 32, 0);
        $m!("{:+x}", "x", true, false, false, 0, 32, 0);
        $m!("{:#010x}", "x", false, true, true, 10, 32, 0);
        $m!("{:<+#12x}", "x", true, true, false, 12, 32, 1);
        $m!("{:X}", "X", false, false, false, 0, 32, 0);
        $m!("{:#X}", "X", false, true, false, 0, 32, 0);
        $m!("{:+#X}", "X", true, true, false, 0, 32, 0);
        $m!("{:#020X}", "X", false, true, true, 20, 32, 0);
        $m!("{:0>+9X}", "X", true, false, false, 9, 48, 3);
        $m!("{:1}", "d", false, false, false, 1, 32, 0);
        $m!("{:01x}", "x", false, false, true, 1, 32, 0);
    };
}

pub fn formats(r: &mut Rec) {
    macro_rules! one {
        ($lit:expr, $kind:expr, $plus:expr, $alt:expr, $zero:expr, $width:expr, $fill:expr, $align:expr) => {
            let ex = format!(
                "\"spec\":{{\"lit\":\"{}\",\"kind\":\"{}\",\"plus\":{},\"alt\":{},\"zero\":{},\"width\":{},\"fill\":{},\"align\":{}}}",
                $lit.replace('"', ""), $kind, $plus, $alt, $zero, $width, $fill, $align
            );
            r.q_u("fmt", $lit, &ex, 0, |a| Ret::none().bytes("text", format!($lit, a).as_bytes()));
            r.q_i("fmt", $lit, &ex, 0, |a| Ret::none().bytes("text", format!($lit, a).as_bytes()));
        };
    }
    fmt_specs!(one);
}

fn value_case(r: &mut Rec, label: &str, d: &[u64], radices: &[u32], with_fmt: bool) {
    if !r.case(label) {
        return;
    }
    let mut rng = r.case_rng();
    load_u(r, 0, d);
    let sign = if rng.chance(2, 3) { Sign::Minus } else { Sign::Plus };
    load_i_from_u(r, 0, sign, 0);
    for &radix in radices {
        to_str_u(r, radix);
        to_str_i(r, radix);
        // parse back what was emitted, and variants of it
        let t = r.g.i[0].to_str_radix(radix).into_bytes();
        if t.len() < 3000 || rng.chance(1, 4) {
            parse_all(r, &t, radix);
        }
        if t.len() < 400 {
            let mut up: Vec<u8> = t.to_ascii_uppercase();
            parse_all(r, &up, radix);
            // leading zeros and underscores after the first digit
            let start = if up[0] == b'-' { 1 } else { 0 };
            up.insert(start, b'0');
            up.insert(start + 1, b'_');
            up.push(b'_');
            parse_all(r, &up, radix);
        }
    }
    if with_fmt {
        formats(r);
    }
}

fn radix_vec_case(r: &mut Rec, label: &str, d: &[u64], radices: &[u32]) {
    if !r.case(label) {
        return;
    }
    let mut rng = r.case_rng();
    load_u(r, 0, d);
    load_i_from_u(r, 0, if rng.chance(1, 2) { Sign::Minus } else { Sign::Plus }, 0);
    for &radix in radices {
        to_radix_u(r, radix);
        to_radix_i(r, radix);
        if (2..=256).contains(&radix) {
            let le = r.g.u[0].to_radix_le(radix);
            let s = *rng.pick(&[Sign::Plus, Sign::Minus, Sign::NoSign]);
            from_radix_all(r, &le, radix, s);
            // redundant high zero digits
            let mut padded = le.clone();
            padded.extend_from_slice(&[0, 0, 0]);
            from_radix_all(r, &padded, radix, Sign::Minus);
        }
    }
}

/// every byte value alone, after a digit, between two digits and after a sign: nothing but the documented digit
/// characters and '_' may be accepted (case folding or range tricks alias control bytes and punctuation onto digits)
fn byte_classes(r: &mut Rec) {
    for radix in [2u32, 10, 16, 36] {
        if !r.case(&format!("byte classes radix {}", radix)) {
            continue;
        }
        for b in 0..=255u8 {
            parse_all(r, &[b], radix);
            parse_all(r, &[b'1', b], radix);
            if b < 128 {
                parse_all(r, &[b'1', b, b'0'], radix);
                parse_all(r, &[b'-', b], radix);
            }
        }
    }
}

fn parser_language(r: &mut Rec) {
    // every string of <= 4 symbols over a small alphabet, radix 10 and 16; plus hand-written corner cases
    let alpha: [u8; 8] = [b'+', b'-', b'_', b'0', b'7', b'a', b'F', b' '];
    if r.case("language radix 10/16 len<=3") {
        for len in 0..=3usize {
            let n = alpha.len().pow(len as u32);
            for code in 0..n {
                let mut c = code;
                let mut s = vec![];
                for _ in 0..len {
                    s.push(alpha[c % alpha.len()]);
                    c /= alpha.len();
                }
                parse_all(r, &s, 10);
                parse_all(r, &s, 16);
            }
        }
    }
    if r.case("language len 4 sampled") {
        let mut rng = r.case_rng();
        for _ in 0..(if r.thorough { 3000 } else { 500 }) {
            let len = 4 + rng.below(3) as usize;
            let s: Vec<u8> = (0..len).map(|_| *rng.pick(&alpha)).collect();
            parse_all(r, &s, *rng.pick(&[2u32, 8, 10, 16, 36]));
        }
    }
    if r.case("language corners") {
        for (s, radix) in [
            (&b""[..], 10u32), (b"+", 10), (b"-", 10), (b"++1", 10), (b"+-1", 10), (b"-+1", 10), (b"--1", 10), (b"_1", 10), (b"1_", 10), (b"1__2", 10),
            (b"+_1", 10), (b"-_1", 10), (b"-0", 10), (b"+0", 10), (b"00000", 10), (b"-000", 10), (b"z", 36), (b"Z", 36), (b"z", 35), (b"9", 9), (b"8", 9),
            (b"2", 2), (b"1_0_1", 2), (b"g", 16), (b"G", 17), (b"1.5", 10), (b"1e5", 10), (b"1e5", 15), (b" 1", 10), (b"1 ", 10), (b"0x10", 16), (b"\xff", 10),
            (b"1\xc3\xa9", 10), (b"\xe2\x88\x92" /* unicode minus */, 10), (b"12\x80", 10), (b"\xc3\x28", 16), (b"\xd9\xa1\xd9\xa2", 10),
        ] {
            parse_all(r, s, radix);
        }
        // radix outside 2..=36 must panic even for well-formed text
        for radix in [0u32, 1, 37, 256, u32::MAX] {
            parse_all(r, b"1", radix);
        }
        // digit vectors: digit >= radix, radix edges, empty
        for (d, radix) in [(&[1u8, 2, 3][..], 3u32), (&[1, 2, 0], 3), (&[][..], 10), (&[255, 255], 256), (&[255], 255), (&[254], 255), (&[0, 0, 0], 2), (&[1], 2), (&[2], 2)] {
            from_radix_all(r, d, radix, Sign::Minus);
        }
        for radix in [0u32, 1, 257, 1000, u32::MAX] {
            from_radix_all(r, &[0, 1], radix, Sign::Plus);
        }
    }
}

pub fn run(r: &mut Rec) {
    let mut rng = Rng(r.seed ^ 0xC06);
    let all_text: Vec<u32> = (2..=36).collect();
    let few_text: Vec<u32> = vec![2, 3, 8, 10, 16, 32, 36];
    // small values: every text radix, formatter matrix
    value_case(r, "zero", &[], &all_text, true);
    for v in [1u64, 7, 9, 10, 35, 36, 255, 256, 1 << 32, u64::MAX, u64::MAX - 1, 1 << 63] {
        value_case(r, &format!("one digit {}", v), &[v], if r.thorough { &all_text } else { &few_text }, true);
    }
    for len in [2usize, 3, 5] {
        let d = digits(&mut rng, len, Pat::Random);
        value_case(r, &format!("random {}", len), &d, &all_text, true);
        let d = digits(&mut rng, len, Pat::Pow2);
        value_case(r, &format!("pow2 {}", len), &d, &all_text, true);
    }
    // around the 64-digit big-base threshold and beyond: every radix at 63/64/65 (one radix per case keeps shards balanced)
    // (the big-base path squares its chunk base until it has sqrt(len) digits: the deeper levels of that recursion only
    // run for long values, and how many native digits a squared base occupies depends on the radix - so every radix is
    // taken to 130 digits, and a spread of radices to 300 / 600)
    let big_lens: Vec<usize> = if r.thorough { vec![63, 64, 65, 66, 81, 100, 130, 200, 300, 600] } else { vec![63, 64, 65, 130, 300] };
    for &len in &big_lens {
        for &radix in &all_text {
            if !r.thorough && len == 300 && ![3u32, 7, 10, 17, 21, 24, 31, 36].contains(&radix) {
                continue;
            }
            if r.thorough && len == 600 && ![3u32, 7, 10, 21, 36].contains(&radix) {
                continue;
            }
            let pat = *rng.pick(&[Pat::Random, Pat::Ones, Pat::LowZeros, Pat::HighOne]);
            let d = digits(&mut rng, len, pat);
            value_case(r, &format!("big {} radix {} {:?}", len, radix, pat), &d, &[radix], false);
        }
    }
    // radix^K plus a small part c with chunk base <= c < 2^64 (fits one native digit, yet needs power + 1 output digits), the
    // small part also moved up by whole chunks: long zero runs inside and between the chunks of the big-base path
    for &radix in &[10u32, 3, 7, 36, 100, 255] {
        let (mut base, mut power) = (radix as u64, 1u32);
        while let Some(nb) = base.checked_mul(radix as u64) {
            base = nb;
            power += 1;
        }
        let cs: Vec<u64> = vec![base, base + 1, u64::MAX, base / 2 + (1u64 << 63), base - 1];
        for (kk, big_k) in [1300u32, 2600].iter().enumerate() {
            if !r.thorough && kk == 1 && radix != 10 {
                continue;
            }
            let p = BigUint::from(radix).pow(*big_k);
            for (ci, c) in cs.iter().enumerate() {
                if !r.thorough && (ci + kk) % 2 == 1 {
                    continue;
                }
                for up in [0u32, 7 * power] {
                    let v = &p + BigUint::from(*c) * BigUint::from(radix).pow(up);
                    if radix <= 36 {
                        value_case(r, &format!("{}^{} + c{} * r^{}", radix, big_k, ci, up), &v.verif_raw().to_vec(), &[radix], false);
                    } else {
                        radix_vec_case(r, &format!("{}^{} + c{} * r^{}", radix, big_k, ci, up), &v.verif_raw().to_vec(), &[radix]);
                    }
                }
            }
        }
    }
    // multiples of radix^k (runs of zero output digits) and radix^k +- 1
    for &radix in &[3u32, 7, 10, 36, 2, 8, 32] {
        for k in [1u32, 19, 20, 40, 41, 100, 400, 1300] {
            if !r.thorough && k > 100 && radix != 10 {
                continue;
            }
            let p = BigUint::from(radix).pow(k);
            for (name, v) in [("", p.clone()), ("-1", &p - 1u32), ("+1", &p + 1u32), ("*", &p * 123456789u32)] {
                value_case(r, &format!("{}^{}{}", radix, k, name), &v.verif_raw().to_vec(), &[radix, 10], false);
            }
        }
    }
    // digit vectors for radix 2..=256
    let vec_radices: Vec<u32> = if r.thorough { (2..=256).collect() } else { vec![2, 3, 4, 7, 8, 10, 16, 32, 36, 37, 64, 100, 128, 255, 256] };
    for len in [0usize, 1, 2, 4, 9] {
        let d = digits(&mut rng, len, Pat::Random);
        radix_vec_case(r, &format!("vec {}", len), &d, &vec_radices);
    }
    for &len in &[63usize, 64, 65, 130, 300] {
        for &radix in &[3u32, 10, 100, 255, 256, 128, 7, 64, 41, 200] {
            if !r.thorough && len == 300 && ![41u32, 100, 200].contains(&radix) {
                continue;
            }
            let d = digits(&mut rng, len, Pat::Random);
            radix_vec_case(r, &format!("vec big {} radix {}", len, radix), &d, &[radix]);
        }
    }
    // invalid radices for export (documented panic)
    if r.case("invalid export radix") {
        load_u(r, 0, &[u64::MAX, 12345]);
        load_i_from_u(r, 0, Sign::Minus, 0);
        for radix in [0u32, 1, 257, 512, 1024, 65536, 1 << 31, u32::MAX] {
            to_radix_u(r, radix);
            to_radix_i(r, radix);
        }
        for radix in [0u32, 1, 37, 64, 256, u32::MAX] {
            to_str_u(r, radix);
            to_str_i(r, radix);
        }
        load_u(r, 0, &[]);
        load_i_from_u(r, 0, Sign::NoSign, 0);
        for radix in [0u32, 1, 257, 512] {
            to_radix_u(r, radix);
            to_radix_i(r, radix);
        }
        for radix in [0u32, 1, 37] {
            to_str_u(r, radix);
            to_str_i(r, radix);
        }
    }
    parser_language(r);
    byte_classes(r);
    // leading zeros filling whole extra native digits, for every kind of radix (exact / inexact bitwise, generic)
    for radix in [2u32, 4, 8, 16, 32, 64, 128, 256, 3, 10, 36, 255] {
        if !r.case(&format!("leading zeros radix {}", radix)) {
            continue;
        }
        let mut rng = r.case_rng();
        let maxz = if r.thorough { 140 } else { 70 };
        let th = r.thorough;
        for nz in (0..=maxz).filter(|z| th || z % 3 == 0 || (20..=24).contains(z) || (40..=44).contains(z) || (62..=66).contains(z)) {
            for tail in [vec![], vec![1u8], vec![(radix - 1).min(255) as u8, 1]] {
                let mut be: Vec<u8> = vec![0; nz];
                be.extend_from_slice(&tail);
                let le: Vec<u8> = be.iter().rev().cloned().collect();
                from_radix_all(r, &le, radix, *rng.pick(&[Sign::Plus, Sign::Minus]));
                if radix <= 36 && !be.is_empty() {
                    let txt: Vec<u8> = be.iter().map(|&d| if d < 10 { b'0' + d } else { b'a' + d - 10 }).collect();
                    parse_all(r, &txt, radix);
                }
            }
        }
    }
    // long inputs at every residue of the chunk size: digit strings of length 1..45 in a few radices
    if r.case("input lengths") {
        let mut rng = r.case_rng();
        for radix in [3u32, 10, 36, 7] {
            for len in 1..=45usize {
                let s: Vec<u8> = (0..len).map(|k| {
                    let dmax = if k == 0 { radix - 1 } else { radix };
                    let d = (rng.below(dmax as u64) as u8) + if k == 0 { 1 } else { 0 };
                    if d < 10 { b'0' + d } else { b'a' + d - 10 }
                }).collect();
                parse_all(r, &s, radix);
            }
        }
    }
}
