//! C04 (generators): values produced by the quickcheck / arbitrary integrations must be canonical, whatever
//! raw digit vectors (with high zero digits) the underlying Vec generators and shrinkers come up with.
#![cfg(all(feature = "quickcheck", feature = "arbitrary"))]

use crate::rec::*;
use num_bigint::{BigInt, BigUint};

pub fn run(r: &mut Rec) {
    use arbitrary::{Arbitrary, Unstructured};
    let mut rng = Rng(r.seed ^ 0xA4B);
    // arbitrary: byte buffers that decode to digit vectors ending in zero digits, all zeros, short, long
    let n = if r.thorough { 3000 } else { 400 };
    for k in 0..n {
        if !r.case(&format!("arbitrary {}", k)) {
            continue;
        }
        let len = rng.below(80) as usize;
        let mut buf: Vec<u8> = (0..len).map(|_| if rng.chance(1, 3) { 0 } else { rng.next() as u8 }).collect();
        // zero runs where the high digits would be, and a length tail that arbitrary reads from the end
        if rng.chance(1, 2) && len > 24 {
            for b in buf.iter_mut().skip(len / 3).take(len / 3) {
                *b = 0;
            }
        }
        let ex = format!("\"ty\":\"U\",\"bytes\":{}", bytes_json(&buf));
        r.op("arbitrary", "U_arbitrary", &[], &[u(2)], &ex, |g| {
            let mut u = Unstructured::new(&buf);
            g.u[2] = BigUint::arbitrary(&mut u).unwrap_or_default();
            Ret::none()
        });
        r.op("arbitrary", "U_take_rest", &[], &[u(2)], &ex, |g| {
            g.u[2] = BigUint::arbitrary_take_rest(Unstructured::new(&buf)).unwrap_or_default();
            Ret::none()
        });
        let exi = format!("\"ty\":\"I\",\"bytes\":{}", bytes_json(&buf));
        r.op("arbitrary", "I_arbitrary", &[], &[i(2)], &exi, |g| {
            let mut u = Unstructured::new(&buf);
            g.i[2] = BigInt::arbitrary(&mut u).unwrap_or_default();
            Ret::none()
        });
        r.op("arbitrary", "I_take_rest", &[], &[i(2)], &exi, |g| {
            g.i[2] = BigInt::arbitrary_take_rest(Unstructured::new(&buf)).unwrap_or_default();
            Ret::none()
        });
        // the observable consequence: equal to a twin rebuilt from its own digits
        crate::drivers::history::obs_u(r, 2, 2);
        crate::drivers::history::obs_i(r, 2, 2);
    }
    // quickcheck: generated values and every shrink candidate
    let n = if r.thorough { 400 } else { 60 };
    for k in 0..n {
        if !r.case(&format!("quickcheck {}", k)) {
            continue;
        }
        use quickcheck::Arbitrary as QA;
        let mut g = quickcheck::Gen::new(1 + (k % 12));
        let x = <BigUint as QA>::arbitrary(&mut g);
        let y = <BigInt as QA>::arbitrary(&mut g);
        r.op("arbitrary", "U_quickcheck", &[], &[u(2)], "\"ty\":\"U\",\"bytes\":[]", |gg| {
            gg.u[2] = x.clone();
            Ret::none()
        });
        r.op("arbitrary", "I_quickcheck", &[], &[i(2)], "\"ty\":\"I\",\"bytes\":[]", |gg| {
            gg.i[2] = y.clone();
            Ret::none()
        });
        for (j, s) in x.shrink().take(40).enumerate() {
            r.op("arbitrary", &format!("U_shrink_{}", j % 4), &[], &[u(3)], "\"ty\":\"U\",\"bytes\":[]", |gg| {
                gg.u[3] = s.clone();
                Ret::none()
            });
        }
        for (j, s) in y.shrink().take(40).enumerate() {
            r.op("arbitrary", &format!("I_shrink_{}", j % 4), &[], &[i(3)], "\"ty\":\"I\",\"bytes\":[]", |gg| {
                gg.i[3] = s.clone();
                Ret::none()
            });
        }
    }
}
