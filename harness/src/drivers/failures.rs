//! C14 driver: the matrix of documented failure cases and their nearest non-failing neighbours.
//! Every case is an ordinary event of the owning family; C14 owns the panic / None / crash verdicts.

use crate::drivers::{bits, div, numth, text};
use crate::gen::*;
use crate::rec::*;
use num_bigint::{BigInt, BigUint, Sign};
use num_integer::Integer;
use num_traits::Pow;

fn div_zero(r: &mut Rec) {
    // every division API with a zero divisor, for zero / one-digit / multi-digit dividends of both signs
    for (k, a) in [vec![], vec![1u64], vec![u64::MAX], vec![5, 7, 9]].iter().enumerate() {
        if !r.case(&format!("div zero {}", k)) {
            continue;
        }
        load_u(r, 0, a);
        load_u(r, 1, &[]);
        for f in 0..div::U_FORMS {
            div::u_form(r, f);
        }
        for s in [Sign::Plus, Sign::Minus] {
            load_i_from_u(r, 0, s, 0);
            load_i_from_u(r, 1, Sign::NoSign, 1);
            for f in 0..div::U_FORMS {
                div::i_form(r, f);
            }
        }
        // nearest neighbour: divisor one
        load_u(r, 1, &[1]);
        load_i_from_u(r, 1, Sign::Minus, 1);
        for f in 0..div::U_FORMS {
            div::u_form(r, f);
            div::i_form(r, f);
        }
        // scalar zero divisors of every width, by value and by reference, and op-assign
        macro_rules! sz {
            ($t:ident) => {
                let z: $t = 0;
                let o: $t = 1;
                for s in [z, o] {
                    let e = format!("{},\"part\":\"q\"", ex_sc("U", &[s.sc()], "rc"));
                    r.op("div", concat!("val_", stringify!($t)), &[u(0)], &[u(2)], &e, |g| { g.u[2] = g.u[0].clone() / s; Ret::none() });
                    r.op("div", concat!("ref_", stringify!($t)), &[u(0)], &[u(2)], &e, |g| { g.u[2] = &g.u[0] / s; Ret::none() });
                    r.clone_u(0, 2);
                    r.op("div", concat!("assign_", stringify!($t)), &[u(2)], &[u(2)], &e, |g| { g.u[2] /= s; Ret::none() });
                    let ei = format!("{},\"part\":\"q\"", ex_sc("I", &[s.sc()], "rc"));
                    r.op("div", concat!("val_", stringify!($t)), &[i(0)], &[i(2)], &ei, |g| { g.i[2] = g.i[0].clone() / s; Ret::none() });
                    r.op("div", concat!("ref_", stringify!($t)), &[i(0)], &[i(2)], &ei, |g| { g.i[2] = &g.i[0] / s; Ret::none() });
                    r.clone_i(0, 2);
                    r.op("div", concat!("assign_", stringify!($t)), &[i(2)], &[i(2)], &ei, |g| { g.i[2] /= s; Ret::none() });
                    // remainder forms need a quotient witness: zero dividend or divisor one keeps it trivial (q = a)
                    let big = r.g.u[0].verif_raw().to_vec();
                    let h = div::hint_q("trunc", if big.is_empty() { 0 } else { 1 }, &big, if s == 0 { 0 } else { 1 }, &[s as u64]);
                    let er = format!("{},\"part\":\"r\",\"hint\":[{}]", ex_sc("U", &[s.sc()], "rc"), h);
                    r.op("rem", concat!("val_", stringify!($t)), &[u(0)], &[u(2)], &er, |g| { g.u[2] = g.u[0].clone() % s; Ret::none() });
                    r.clone_u(0, 2);
                    r.op("rem", concat!("assign_", stringify!($t)), &[u(2)], &[u(2)], &er, |g| { g.u[2] %= s; Ret::none() });
                }
            };
        }
        sz!(u8);
        sz!(u16);
        sz!(u32);
        sz!(u64);
        sz!(u128);
        sz!(usize);
        macro_rules! szi {
            ($t:ident) => {
                let z: $t = 0;
                let ei = format!("{},\"part\":\"q\"", ex_sc("I", &[z.sc()], "rc"));
                r.op("div", concat!("val_", stringify!($t)), &[i(0)], &[i(2)], &ei, |g| { g.i[2] = g.i[0].clone() / z; Ret::none() });
                r.op("div", concat!("ref_", stringify!($t)), &[i(0)], &[i(2)], &ei, |g| { g.i[2] = &g.i[0] / z; Ret::none() });
                r.clone_i(0, 2);
                r.op("div", concat!("assign_", stringify!($t)), &[i(2)], &[i(2)], &ei, |g| { g.i[2] /= z; Ret::none() });
            };
        }
        szi!(i8);
        szi!(i16);
        szi!(i32);
        szi!(i64);
        szi!(i128);
        szi!(isize);
    }
}

fn underflow(r: &mut Rec) {
    for (k, (a, b)) in [(vec![], vec![1u64]), (vec![5u64], vec![6]), (vec![6], vec![6]), (vec![0, 1], vec![1, 1]), (vec![u64::MAX], vec![0, 1]), (vec![7], vec![3, 0, 0, 9]),
                        (vec![1, 1], vec![0, 1])].iter().enumerate() {
        if !r.case(&format!("underflow {}", k)) {
            continue;
        }
        load_u(r, 0, a);
        load_u(r, 1, b);
        crate::drivers::addsub::forms_u(r);
        // scalar forms: big - scalar and scalar - big, dec
        let s64 = b.first().cloned().unwrap_or(0);
        let e = ex_sc("U", &[s64.sc()], "rc");
        r.op("sub", "val_u64", &[u(0)], &[u(2)], &e, |g| { g.u[2] = g.u[0].clone() - s64; Ret::none() });
        r.clone_u(0, 2);
        r.op("sub", "assign_u64", &[u(2)], &[u(2)], &e, |g| { g.u[2] -= s64; Ret::none() });
        let e2 = ex_sc("U", &[s64.sc()], "cr");
        r.op("sub", "u64_val", &[u(1)], &[u(2)], &e2, |g| { g.u[2] = s64 - g.u[1].clone(); Ret::none() });
        r.op("sub", "u64_ref", &[u(1)], &[u(2)], &e2, |g| { g.u[2] = s64 - &g.u[1]; Ret::none() });
        let s128 = (s64 as u128) << 64 | 5;
        let e3 = ex_sc("U", &[s128.sc()], "cr");
        r.op("sub", "u128_val", &[u(1)], &[u(2)], &e3, |g| { g.u[2] = s128 - g.u[1].clone(); Ret::none() });
        let e4 = ex_sc("U", &[s128.sc()], "rc");
        r.op("sub", "val_u128", &[u(0)], &[u(2)], &e4, |g| { g.u[2] = g.u[0].clone() - s128; Ret::none() });
        r.clone_u(0, 2);
        r.u_mut("dec", "method", "", 2, |d| d.dec());
        load_i_from_u(r, 0, Sign::Plus, 0);
        r.clone_i(0, 2);
        r.i_mut("dec", "method", "", 2, |d| d.dec());
    }
}

fn shifts(r: &mut Rec) {
    for (k, a) in [vec![], vec![1u64], vec![0, 0, 3]].iter().enumerate() {
        if !r.case(&format!("negative shift {}", k)) {
            continue;
        }
        load_u(r, 0, a);
        load_i_from_u(r, 0, if k == 1 { Sign::Minus } else { Sign::Plus }, 0);
        macro_rules! ns {
            ($t:ident) => {
                for amt in [-1 as $t, <$t>::MIN, 0, 1] {
                    let eu = ex_sc("U", &[amt.sc()], "rc");
                    let ei = ex_sc("I", &[amt.sc()], "rc");
                    r.op("shl", concat!("val_", stringify!($t)), &[u(0)], &[u(2)], &eu, |g| { g.u[2] = g.u[0].clone() << amt; Ret::none() });
                    r.op("shr", concat!("ref_", stringify!($t)), &[u(0)], &[u(2)], &eu, |g| { g.u[2] = &g.u[0] >> amt; Ret::none() });
                    r.op("shl", concat!("ref_", stringify!($t)), &[i(0)], &[i(2)], &ei, |g| { g.i[2] = &g.i[0] << amt; Ret::none() });
                    r.op("shr", concat!("val_", stringify!($t)), &[i(0)], &[i(2)], &ei, |g| { g.i[2] = g.i[0].clone() >> amt; Ret::none() });
                    r.clone_u(0, 2);
                    r.op("shl", concat!("assign_", stringify!($t)), &[u(2)], &[u(2)], &eu, |g| { g.u[2] <<= amt; Ret::none() });
                    r.clone_i(0, 2);
                    r.op("shr", concat!("assign_", stringify!($t)), &[i(2)], &[i(2)], &ei, |g| { g.i[2] >>= amt; Ret::none() });
                }
            };
        }
        ns!(i8);
        ns!(i16);
        ns!(i32);
        ns!(i64);
        ns!(i128);
        ns!(isize);
    }
}

fn radices(r: &mut Rec) {
    for (k, a) in [vec![], vec![1u64], vec![u64::MAX, 12345]].iter().enumerate() {
        if !r.case(&format!("radix range {}", k)) {
            continue;
        }
        load_u(r, 0, a);
        load_i_from_u(r, 0, Sign::Minus, 0);
        for radix in [0u32, 1, 2, 36, 37, 38, 64, 255, 256, 257, 512, 1024, 65536, 1 << 31, u32::MAX] {
            text::to_radix_u(r, radix);
            text::to_radix_i(r, radix);
            text::to_str_u(r, radix);
            text::to_str_i(r, radix);
            text::parse_all(r, b"10", radix);
            text::from_radix_all(r, &[1, 0, 1], radix, Sign::Minus);
            text::from_radix_all(r, &[], radix, Sign::Plus);
        }
    }
}

fn moduli(r: &mut Rec) {
    if !r.case("modulus and exponent") {
        return;
    }
    for (b, e, m) in [(vec![5u64], vec![3u64], vec![]), (vec![], vec![], vec![]), (vec![5], vec![], vec![]), (vec![5], vec![3], vec![1u64]), (vec![5], vec![3], vec![2]),
                      (vec![0, 1], vec![0, 1], vec![])] {
        load_u(r, 0, &b);
        load_u(r, 1, &e);
        load_u(r, 2, &m);
        if m.is_empty() {
            r.op("modpow", "U", &[u(0), u(1), u(2)], &[u(3)], "\"ty\":\"U\",\"hq\":[]", |g| { g.u[3] = g.u[0].modpow(&g.u[1], &g.u[2]); Ret::none() });
            r.op("modinv", "U", &[u(0), u(2)], &[u(3)], "\"ty\":\"U\",\"hg\":[[],[],[]]", |g| {
                let v = g.u[0].modinv(&g.u[2]);
                let some = v.is_some();
                g.u[3] = v.unwrap_or_default();
                Ret::none().some(some).raw("hk", "{\"s\":0,\"d\":[]}")
            });
        }
        for (sb, se, sm) in [(Sign::Plus, Sign::Plus, Sign::Plus), (Sign::Minus, Sign::Plus, Sign::Minus), (Sign::Plus, Sign::Minus, Sign::Plus), (Sign::Minus, Sign::Minus, Sign::Minus)] {
            load_i_from_u(r, 0, sb, 0);
            load_i_from_u(r, 1, se, 1);
            load_i_from_u(r, 2, sm, 2);
            // only the failing combinations (zero modulus or negative exponent) are recorded here: no witnesses needed
            let fails = m.is_empty() || (se == Sign::Minus && !e.is_empty());
            if fails {
                r.op("modpow", "I", &[i(0), i(1), i(2)], &[i(3)], "\"ty\":\"I\",\"hq\":[]", |g| { g.i[3] = g.i[0].modpow(&g.i[1], &g.i[2]); Ret::none() });
            }
            if m.is_empty() {
                r.op("modinv", "I", &[i(0), i(2)], &[i(3)], "\"ty\":\"I\",\"hg\":[[],[],[]]", |g| {
                    let v = g.i[0].modinv(&g.i[2]);
                    let some = v.is_some();
                    g.i[3] = v.unwrap_or_default();
                    Ret::none().some(some).raw("hk", "{\"s\":0,\"d\":[]}")
                });
            }
        }
    }
}

fn roots(r: &mut Rec) {
    for (k, a) in [vec![], vec![1u64], vec![2], vec![4], vec![27], vec![0, 1], vec![9, 9, 9]].iter().enumerate() {
        if !r.case(&format!("roots {}", k)) {
            continue;
        }
        load_u(r, 0, a);
        for s in [Sign::Plus, Sign::Minus] {
            load_i_from_u(r, 0, s, 0);
            r.i1("sqrt", "method", "\"n\":2", 0, 2, |x| x.sqrt());
            r.i1("cbrt", "method", "\"n\":3", 0, 2, |x| x.cbrt());
            for n in [0u32, 1, 2, 3, 4, 5, 6, 63, 64, u32::MAX - 1, u32::MAX] {
                let ex = format!("\"sc\":{}", sc_list(&[n.sc()]));
                r.i1("nth_root", "method", &ex, 0, 2, |x| x.nth_root(n));
                if s == Sign::Plus {
                    r.u1("nth_root", "method", &ex, 0, 2, |x| x.nth_root(n));
                }
            }
        }
    }
}

fn multiples(r: &mut Rec) {
    if !r.case("multiples of zero") {
        return;
    }
    for a in [vec![], vec![6u64], vec![0, 1]] {
        load_u(r, 0, &a);
        load_u(r, 1, &[]);
        for s in [Sign::Plus, Sign::Minus] {
            load_i_from_u(r, 0, s, 0);
            load_i_from_u(r, 1, Sign::NoSign, 1);
            r.op("next_multiple_of", "method", &[u(0), u(1)], &[u(2)], "\"ty\":\"U\"", |g| { g.u[2] = g.u[0].next_multiple_of(&g.u[1]); Ret::none().raw("hk", "{\"s\":0,\"d\":[]}") });
            r.op("prev_multiple_of", "method", &[u(0), u(1)], &[u(2)], "\"ty\":\"U\"", |g| { g.u[2] = g.u[0].prev_multiple_of(&g.u[1]); Ret::none().raw("hk", "{\"s\":0,\"d\":[]}") });
            r.op("next_multiple_of", "method", &[i(0), i(1)], &[i(2)], "\"ty\":\"I\"", |g| { g.i[2] = g.i[0].next_multiple_of(&g.i[1]); Ret::none().raw("hk", "{\"s\":0,\"d\":[]}") });
            r.op("prev_multiple_of", "method", &[i(0), i(1)], &[i(2)], "\"ty\":\"I\"", |g| { g.i[2] = g.i[0].prev_multiple_of(&g.i[1]); Ret::none().raw("hk", "{\"s\":0,\"d\":[]}") });
        }
    }
    // powers: 0^0 and friends never fail
    load_u(r, 0, &[]);
    load_i_from_u(r, 0, Sign::NoSign, 0);
    for e in [0u32, 1, 2] {
        let ex = format!("\"sc\":{}", sc_list(&[e.sc()]));
        r.u1("pow", "val_u32", &ex, 0, 2, |a| Pow::pow(a.clone(), e));
        r.i1("pow", "val_u32", &ex, 0, 2, |a| Pow::pow(a.clone(), e));
    }
}

pub fn run(r: &mut Rec) {
    // no failure is documented for bit writes and bit queries: the boundary family must return in both profiles
    crate::drivers::bits::lowbit_family(r, false);
    div_zero(r);
    underflow(r);
    shifts(r);
    radices(r);
    moduli(r);
    roots(r);
    multiples(r);
    let _ = (bits::pow64_family, numth::run_roots as fn(&mut Rec));
    let _ = BigUint::default();
    let _ = BigInt::default();
}
