//! C05 driver: modpow (Montgomery and plain paths) and modinv, with untrusted reduction witnesses.

use crate::gen::*;
use crate::hint;
use crate::rec::*;
use num_bigint::{BigInt, BigUint, Sign};

fn hints_modpow(b: &[u64], e: &[u64], m: &[u64]) -> String {
    // quotients of every reduction of left-to-right square-and-multiply on magnitudes
    let (nb, ne, nm) = (hint::from_u64s(b), hint::from_u64s(e), hint::from_u64s(m));
    if nm.is_empty() {
        return "[]".into();
    }
    let mut out: Vec<String> = vec![];
    let (q0, b0) = hint::divmod(&nb, &nm);
    out.push(bytes_json(&hint::to_bytes(&q0)));
    let mut s: hint::N = if nm == vec![1u32] { vec![] } else { vec![1] };
    for i in (0..hint::bits(&ne)).rev() {
        let (q, r) = hint::divmod(&hint::mul(&s, &s), &nm);
        out.push(bytes_json(&hint::to_bytes(&q)));
        s = r;
        if (ne[i / 32] >> (i % 32)) & 1 == 1 {
            let (q, r) = hint::divmod(&hint::mul(&s, &b0), &nm);
            out.push(bytes_json(&hint::to_bytes(&q)));
            s = r;
        }
    }
    format!("[{}]", out.join(","))
}

/// witnesses for modinv on magnitudes: if x is given (library said Some): k with |b|*x = 1 + k*|m| ... computed by the spec from
/// the relation; here we provide for the None case a common divisor g > 1 with cofactors, and for Some the quotient k.
fn hints_modinv(b: &[u64], m: &[u64]) -> String {
    let (nb, nm) = (hint::from_u64s(b), hint::from_u64s(m));
    if nm.is_empty() {
        return "\"hg\":[[],[],[]]".into();
    }
    let g = hint::gcd(&nb, &nm);
    let (bq, _) = hint::divmod(&nb, &g);
    let (mq, _) = hint::divmod(&nm, &g);
    format!("\"hg\":[{},{},{}]", bytes_json(&hint::to_bytes(&g)), bytes_json(&hint::to_bytes(&bq)), bytes_json(&hint::to_bytes(&mq)))
}

/// K with b*x - 1 = K*m (signed), as {"s","d"}; exact only if x really is an inverse
fn hint_k(sb: i32, b: &[u64], sx: i32, x: &[u64], sm: i32, m: &[u64]) -> String {
    let t = hint::mul(&hint::from_u64s(b), &hint::from_u64s(x));
    let st = if t.is_empty() { 0 } else { sb * sx };
    let one = vec![1u32];
    // v = st*t - 1
    let (sv, v) = if st > 0 { let d = hint::sub(&t, &one); (if d.is_empty() { 0 } else { 1 }, d) } else { (-1, hint::add(&t, &one)) };
    let nm = hint::from_u64s(m);
    if nm.is_empty() {
        return "{\"s\":0,\"d\":[]}".into();
    }
    let (q, _) = hint::divmod(&v, &nm);
    let sk = if q.is_empty() { 0 } else { sv * sm };
    format!("{{\"s\":{},\"d\":{}}}", sk, bytes_json(&hint::to_bytes(&q)))
}
fn sg(s: Sign) -> i32 {
    match s {
        Sign::Minus => -1,
        Sign::NoSign => 0,
        Sign::Plus => 1,
    }
}

fn one_case(r: &mut Rec, label: &str, b: &[u64], e: &[u64], m: &[u64]) {
    if !r.case(label) {
        return;
    }
    let mut rng = r.case_rng();
    load_u(r, 0, b);
    load_u(r, 1, e);
    load_u(r, 2, m);
    let hq = hints_modpow(b, e, m);
    r.op("modpow", "U", &[u(0), u(1), u(2)], &[u(3)], &format!("\"ty\":\"U\",\"hq\":{}", hq), |g| {
        g.u[3] = g.u[0].modpow(&g.u[1], &g.u[2]);
        Ret::none()
    });
    // signs: all combinations of base and modulus sign; exponent non-negative (a negative one must panic)
    let combos = [(Sign::Plus, Sign::Plus), (Sign::Minus, Sign::Plus), (Sign::Plus, Sign::Minus), (Sign::Minus, Sign::Minus)];
    let k0 = rng.below(4) as usize;
    let n = if b.len() + m.len() <= 6 { 4 } else { 2 };
    for k in 0..n {
        let (sb, sm) = combos[(k0 + k) % 4];
        load_i_from_u(r, 0, sb, 0);
        load_i_from_u(r, 1, Sign::Plus, 1);
        load_i_from_u(r, 2, sm, 2);
        r.op("modpow", "I", &[i(0), i(1), i(2)], &[i(3)], &format!("\"ty\":\"I\",\"hq\":{}", hq), |g| {
            g.i[3] = g.i[0].modpow(&g.i[1], &g.i[2]);
            Ret::none()
        });
    }
    if rng.chance(1, 6) && !e.is_empty() {
        load_i_from_u(r, 1, Sign::Minus, 1);
        r.op("modpow", "I_negexp", &[i(0), i(1), i(2)], &[i(3)], &format!("\"ty\":\"I\",\"hq\":{}", hq), |g| {
            g.i[3] = g.i[0].modpow(&g.i[1], &g.i[2]);
            Ret::none()
        });
    }
}

fn inv_case(r: &mut Rec, label: &str, b: &[u64], m: &[u64]) {
    if !r.case(label) {
        return;
    }
    load_u(r, 0, b);
    load_u(r, 2, m);
    let hg = hints_modinv(b, m);
    r.op("modinv", "U", &[u(0), u(2)], &[u(3)], &format!("\"ty\":\"U\",{}", hg), |g| {
        let v = g.u[0].modinv(&g.u[2]);
        let some = v.is_some();
        g.u[3] = v.unwrap_or_default();
        let hk = hint_k(1, g.u[0].verif_raw(), 1, g.u[3].verif_raw(), 1, g.u[2].verif_raw());
        Ret::none().some(some).raw("hk", &hk)
    });
    for (sb, sm) in [(Sign::Plus, Sign::Plus), (Sign::Minus, Sign::Plus), (Sign::Plus, Sign::Minus), (Sign::Minus, Sign::Minus)] {
        load_i_from_u(r, 0, sb, 0);
        load_i_from_u(r, 2, sm, 2);
        r.op("modinv", "I", &[i(0), i(2)], &[i(3)], &format!("\"ty\":\"I\",{}", hg), |g| {
            let v = g.i[0].modinv(&g.i[2]);
            let some = v.is_some();
            g.i[3] = v.unwrap_or_default();
            let hk = hint_k(sg(g.i[0].sign()), g.i[0].magnitude().verif_raw(), sg(g.i[3].sign()), g.i[3].magnitude().verif_raw(),
                            sg(g.i[2].sign()), g.i[2].magnitude().verif_raw());
            Ret::none().some(some).raw("hk", &hk)
        });
    }
}

fn exponent(rng: &mut Rng, kind: u64, maxdigits: usize) -> Vec<u64> {
    match kind % 9 {
        0 => vec![],
        1 => vec![1],
        2 => vec![2],
        3 => vec![1u64 << rng.below(64)],
        4 => vec![rng.next() & 0xf0f0_0f00_00ff_000f | 1 << 63], // zero 4-bit windows
        5 => {
            // multi-digit with zero low digits
            let n = 1 + rng.below(maxdigits as u64) as usize;
            let mut e = vec![0u64; n + 1];
            e[n] = 1 + rng.below(7);
            if n > 1 && rng.chance(1, 2) {
                e[n - 1] = rng.next();
            }
            e
        }
        6 => vec![u64::MAX],
        7 => digits(rng, 1 + rng.clone().below(maxdigits as u64) as usize, Pat::Random),
        _ => vec![rng.below(300)],
    }
}

/// moduli with runs of all-ones digits against bases 2^(64k) - 2^j (also part of the C16 configuration transcript)
pub fn ones_run_family(r: &mut Rec, kmax: usize) {
    // moduli with runs of all-ones digits (at the top, in the middle, everywhere) against bases 2^(64k) - 2^j and bases with
    // all-ones digits at the same positions: the Montgomery reduction then meets an all-ones digit pair with a borrow or a
    // carry coming in (lost with probability 2^-64 on random operands)
    for k in 2..=kmax {
        for shape in 0..4 {
            let mut m = vec![u64::MAX; k];
            match shape {
                0 => {}                                   // 2^(64k) - 1
                1 => m[0] = u64::MAX - 158,               // 2^(64k) - 159
                2 => m[k - 1] = 0x7fff_ffff_ffff_ffff,    // top digit not full
                _ => m[0] = 0x1234_5678_9abc_def1,        // low digit random, all others ones
            }
            let mut js: Vec<usize> = vec![1];
            for d in 1..k {
                js.extend([64 * d - 1, 64 * d, 64 * d + 1]);
            }
            js.push(64 * k - 1);
            for (n, &j) in js.iter().enumerate() {
                // b = 2^(64k) - 2^j
                let mut b = vec![u64::MAX; k];
                for d in 0..(j / 64) {
                    b[d] = 0;
                }
                b[j / 64] = u64::MAX << (j % 64);
                let e: Vec<u64> = match (n + shape) % 3 {
                    0 => vec![2],
                    1 => vec![3],
                    _ => vec![65537],
                };
                one_case(r, &format!("ones-run k{} shape{} j{}", k, shape, j), &b, &e, &m);
            }
            // the square of the modulus minus one / two, and an all-ones base one digit longer
            let mut b = m.clone();
            b[0] -= 1;
            one_case(r, &format!("ones-run k{} shape{} m-1", k, shape), &b, &[2], &m);
            one_case(r, &format!("ones-run k{} shape{} longer", k, shape), &vec![u64::MAX; k + 1], &[3], &m);
        }
    }
}

pub fn run(r: &mut Rec) {
    let mut rng = Rng(r.seed ^ 0xC05);
    let mlens: Vec<usize> = if r.thorough { vec![1, 2, 3, 4, 5, 8, 20] } else { vec![1, 2, 3, 5] };
    let reps = if r.thorough { 14 } else { 6 };
    for &ml in &mlens {
        for odd in [true, false] {
            for top in 0..4 {
                for rep in 0..reps {
                    let mut m = digits_p(&mut rng, ml, &[Pat::Random, Pat::Ones, Pat::Landmark]);
                    m[ml - 1] = match top {
                        0 => 1,
                        1 => 1 << 63,
                        2 => u64::MAX,
                        _ => rng.next() | 1,
                    };
                    if odd {
                        m[0] |= 1;
                    } else {
                        m[0] &= !1;
                        if ml == 1 && m[0] == 0 {
                            m[0] = 2;
                        }
                    }
                    // base: shorter, equal (below and above m), longer, zero, near m (Montgomery form near R)
                    let b = match rep % 7 {
                        0 => vec![],
                        1 => digits(&mut rng, ml.saturating_sub(1).max(1), Pat::Random),
                        2 => {
                            let mut b = m.clone();
                            b[0] = b[0].wrapping_sub(2);
                            b
                        }
                        3 => {
                            let mut b = digits(&mut rng, ml, Pat::Ones);
                            b[ml - 1] = u64::MAX;
                            b
                        }
                        4 => {
                            let extra = 1 + rng.below(2) as usize;
                            digits(&mut rng, ml + extra, Pat::Random)
                        }
                        5 => digits(&mut rng, ml, Pat::Landmark),
                        _ => digits(&mut rng, ml, Pat::Random),
                    };
                    // a longer base whose residue is shorter than the modulus (multiples of m, m*2^70 + small)
                    let b = if rep % 7 == 4 && (top + rep as u64) % 2 == 0 {
                        let k = digits(&mut rng, 1 + (rep % 2), Pat::Random);
                        let mut p = crate::hint::mul(&crate::hint::from_u64s(&m), &crate::hint::from_u64s(&k));
                        if top % 4 != 0 {
                            p = crate::hint::add(&p, &vec![5u32]);
                        }
                        p.chunks(2).map(|c| c[0] as u64 | ((*c.get(1).unwrap_or(&0) as u64) << 32)).collect()
                    } else {
                        b
                    };
                    let e = exponent(&mut rng, rep as u64 + top, if r.thorough { 4 } else { 2 });
                    one_case(r, &format!("m{} odd={} top{} rep{}", ml, odd, top, rep), &b, &e, &m);
                }
            }
        }
    }
    // all-ones moduli 2^(64k)-1 and 2^(64k)-c with bases just below: Montgomery carries
    for k in 1..=3usize {
        for c in [1u64, 3, 159, 189] {
            let mut m = vec![u64::MAX; k];
            m[0] = u64::MAX - c + 1;
            for db in [1u64, 2, 3, 5] {
                let mut b = m.clone();
                b[0] -= db.min(b[0]);
                for e in [vec![2u64], vec![3], vec![65537], vec![0, 1], vec![u64::MAX, 1]] {
                    one_case(r, &format!("ones k{} c{} db{}", k, c, db), &b, &e, &m);
                }
            }
        }
    }
    ones_run_family(r, if r.thorough { 6 } else { 5 });
    // long even moduli (no Montgomery: plain square-and-multiply through Karatsuba-sized products and full divisions) with
    // sparse bases that have zero digits at the split points of the multiplication
    for ml in if r.thorough { vec![66usize, 67, 70, 96, 130] } else { vec![66, 70] } {
        let mut m = vec![0u64; ml + 1];
        m[ml] = 1;                                   // 2^(64 ml): even, residues are the low digits
        let mut m2 = digits(&mut rng, ml, Pat::Random);
        m2[0] &= !1;
        m2[ml - 1] |= 1 << 63;
        for (mi, md) in [m, m2].iter().enumerate() {
            let mut b = vec![0u64; ml];
            b[0] = 1;
            b[20] = 1;
            b[ml - 1] = 1;                            // 2^(64(ml-1)) + 2^1280 + 1: zero digit at len/2 - 1
            let mut b2 = digits(&mut rng, ml, Pat::Random);
            b2[ml / 2 - 1] = 0;
            for (bi, bd) in [b, b2].iter().enumerate() {
                for e in [2u64, 3, 5] {
                    if !r.thorough && (e as usize + bi + mi) % 2 == 0 {
                        continue;
                    }
                    one_case(r, &format!("long even m{} #{} base{} e{}", ml, mi, bi, e), bd, &[e], md);
                }
            }
        }
    }
    // bases that are exact multiples of the modulus, or a multiple plus something shorter than the modulus
    for ml in 1..=3usize {
        for odd in [true, false] {
            for add in [0u32, 1, 5] {
                let mut m = digits(&mut rng, ml, Pat::Random);
                if odd { m[0] |= 1 } else { m[0] &= !1; if m[0] == 0 && ml == 1 { m[0] = 6 } }
                let nm = crate::hint::from_u64s(&m);
                for shift in [64usize, 70, 128] {
                    let mut p = vec![0u32; shift / 32];
                    p.push(1 << (shift % 32));
                    let mut b = crate::hint::mul(&nm, &p);
                    if add > 0 { b = crate::hint::add(&b, &vec![add]); }
                    let bd: Vec<u64> = b.chunks(2).map(|c| c[0] as u64 | ((*c.get(1).unwrap_or(&0) as u64) << 32)).collect();
                    one_case(r, &format!("multiple m{} odd={} add{} sh{}", ml, odd, add, shift), &bd, &[5], &m);
                }
            }
        }
    }
    one_case(r, "3<<64 mod 3", &[0, 3], &[5], &[3]);
    // m = 1, zero modulus, e = 0, b = 0
    for (b, e, m) in [(vec![5u64], vec![3u64], vec![1u64]), (vec![5], vec![3], vec![]), (vec![], vec![], vec![7]), (vec![], vec![5], vec![8]), (vec![9], vec![], vec![1]),
                      (vec![2], vec![0, 0, 1], vec![6]), (vec![3], vec![0, 1], vec![u64::MAX - 1, 5])] {
        one_case(r, "edge", &b, &e, &m);
    }
    // modinv: all small pairs plus structured large ones
    for m in 1..=(if r.thorough { 40u64 } else { 16 }) {
        for b in 0..=m + 2 {
            inv_case(r, &format!("inv small {} {}", b, m), &if b == 0 { vec![] } else { vec![b] }, &[m]);
        }
    }
    inv_case(r, "inv zero modulus", &[5], &[]);
    let n_inv = if r.thorough { 600 } else { 120 };
    for k in 0..n_inv {
        let ml = 1 + (k % 5) as usize;
        let m = digits_p(&mut rng, ml, &[Pat::Random, Pat::Ones, Pat::Pow2, Pat::Landmark]);
        let bl = 1 + rng.below(ml as u64 + 1) as usize;
        let mut b = digits(&mut rng, bl, Pat::Random);
        if k % 4 == 0 {
            // force a common factor
            b[0] &= !1;
            let mut m2 = m.clone();
            m2[0] &= !1;
            if m2.iter().all(|x| *x == 0) {
                m2[0] = 2;
            }
            inv_case(r, &format!("inv common {}", k), &b, &m2);
        } else {
            inv_case(r, &format!("inv random {}", k), &b, &m);
        }
    }
}
