//! Cross-family driver: every structured operand family (carry chains, 2^(64k), hierarchical zero/ones,
//! landmark digits, equal top digits, exact multiples, near-equal values) is applied to EVERY binary
//! operation of both types with rotating operator forms, so that a defect in one operation that only shows on
//! an operand shape invented for another one is still met.

use crate::drivers::{addsub, bits, div};
use crate::gen::*;
use crate::hint;
use crate::rec::*;
use num_bigint::Sign;
use num_integer::Integer;

fn from_n(p: &hint::N) -> Vec<u64> {
    p.chunks(2).map(|c| c[0] as u64 | ((*c.get(1).unwrap_or(&0) as u64) << 32)).collect()
}

/// operand pairs, each with a label
pub fn families(rng: &mut Rng, thorough: bool) -> Vec<(String, Vec<u64>, Vec<u64>)> {
    let mut out: Vec<(String, Vec<u64>, Vec<u64>)> = vec![];
    let lens: Vec<usize> = if thorough { vec![1, 2, 3, 5, 6, 9, 11] } else { vec![1, 2, 5, 6] };
    for &la in &lens {
        for &lb in &lens {
            // landmark digits
            let a: Vec<u64> = digits(rng, la, Pat::Landmark);
            let b: Vec<u64> = digits(rng, lb, Pat::Landmark);
            out.push((format!("landmark {}x{}", la, lb), a, b));
            // hierarchical
            out.push((format!("hier {}x{}", la, lb), hier(rng, la), hier(rng, lb)));
            // 2^(64k) against all ones / against 2^(64j)
            let mut p = vec![0u64; la];
            p[la - 1] = 1;
            out.push((format!("pow64 vs ones {}x{}", la, lb), p.clone(), vec![u64::MAX; lb]));
            let mut q = vec![0u64; lb];
            q[lb - 1] = 1 << 63;
            out.push((format!("pow64 vs pow63 {}x{}", la, lb), p.clone(), q));
            if la >= lb {
                // carry / borrow chains
                let mut a = vec![u64::MAX; la];
                a[0] = 1;
                let b = vec![u64::MAX; lb];
                out.push((format!("carry chain {}x{}", la, lb), a, b));
                let mut a = vec![0u64; la];
                a[la - 1] = 1;
                let mut b = vec![0u64; lb];
                b[0] = 1;
                if lb > 1 {
                    b[lb - 1] = 1;
                }
                out.push((format!("borrow chain {}x{}", la, lb), a, b));
                // exact multiple and multiple +- 1
                let d = digits(rng, lb, Pat::Random);
                let k = digits(rng, (la - lb).max(1), Pat::Ones);
                let m = hint::mul(&hint::from_u64s(&d), &hint::from_u64s(&k));
                out.push((format!("multiple {}x{}", la, lb), from_n(&m), d.clone()));
                out.push((format!("multiple+1 {}x{}", la, lb), from_n(&hint::add(&m, &vec![1u32])), d.clone()));
                out.push((format!("multiple-1 {}x{}", la, lb), from_n(&hint::sub(&m, &vec![1u32])), d));
            }
            if la == lb {
                // equal, and differing only in the lowest / highest digit
                let a = digits(rng, la, Pat::Random);
                let mut b = a.clone();
                out.push((format!("equal {}", la), a.clone(), b.clone()));
                b[0] ^= 1;
                out.push((format!("low digit differs {}", la), a.clone(), b.clone()));
                let mut c = a.clone();
                c[la - 1] = c[la - 1].wrapping_add(1).max(1);
                out.push((format!("top digit differs {}", la), a, c));
            }
        }
        // just above / just below a power of 2^64: the difference (and the quotient) is far shorter than both operands
        for (s, t) in [(5u64, 3u64), (0, 1), (1, u64::MAX), (u64::MAX, 1), (0, 0)] {
            let mut a = vec![0u64; la + 1];
            a[la] = 1;
            a[0] = s;
            let mut p = vec![0u32; 2 * la + 1];
            p[2 * la] = 1;
            let b = from_n(&hint::sub(&p, &hint::from_u64s(&[t.max(1)])));
            out.push((format!("near pow {} +{} -{}", la, s, t), a.clone(), b.clone()));
            if la >= 2 {
                // ... with a run of zero digits in the middle of the smaller one: 2^(64 la) - 2^64 + t
                let b2 = from_n(&hint::add(&hint::sub(&p, &hint::from_u64s(&[0, 1])), &hint::from_u64s(&[t])));
                out.push((format!("near pow {} +{} -2^64+{}", la, s, t), a, b2));
            }
        }
        out.push((format!("zero rhs {}", la), digits(rng, la, Pat::Random), vec![]));
        out.push((format!("zero lhs {}", la), vec![], digits(rng, la, Pat::Ones)));
    }
    out.push(("zero zero".into(), vec![], vec![]));
    out
}

fn gcd_like(r: &mut Rec, k: u64) {
    // gcd / lcm need certificates: reuse the numth helpers through their public driver pieces
    let _ = k;
    let a = r.g.u[0].roomy();
    let b = r.g.u[1].roomy();
    let (g, x, y) = hint::ext_gcd(&hint::from_u64s(a.verif_raw()), &hint::from_u64s(b.verif_raw()));
    let (ca, cb) = if g.is_empty() { (vec![], vec![]) } else { (hint::divmod(&hint::from_u64s(a.verif_raw()), &g).0, hint::divmod(&hint::from_u64s(b.verif_raw()), &g).0) };
    let hg = format!(
        "\"hg\":{{\"g\":{},\"ca\":{},\"cb\":{},\"x\":{},\"y\":{}}}",
        hint::z_json(&hint::z_norm(1, g)),
        hint::z_json(&hint::z_norm(1, ca)),
        hint::z_json(&hint::z_norm(1, cb)),
        hint::z_json(&x),
        hint::z_json(&y)
    );
    r.x(hg.clone()).uu("gcd", "method", 0, 1, 2, |a, b| a.gcd(b));
    r.x(hg).uu("lcm", "method", 0, 1, 2, |a, b| a.lcm(b));
}

pub fn run(r: &mut Rec) {
    let mut rng = Rng(r.seed ^ 0x3A7);
    let fams = families(&mut rng, r.thorough);
    let signs = [(Sign::Plus, Sign::Plus), (Sign::Plus, Sign::Minus), (Sign::Minus, Sign::Plus), (Sign::Minus, Sign::Minus)];
    for (k, (label, a, b)) in fams.iter().enumerate() {
        if !r.case(label) {
            continue;
        }
        let mut rg = r.case_rng();
        load_u(r, 0, a);
        load_u(r, 1, b);
        addsub::forms_u(r);
        for f in 0..div::U_FORMS {
            div::u_form(r, f);
        }
        let f0 = rg.below(7);
        r.uu("mul", "ref_ref", 0, 1, 2, |x, y| x * y);
        r.uu("mul", "val_val", 1, 0, 2, |x, y| x.roomy() * y.roomy());
        let _ = f0;
        gcd_like(r, k as u64);
        crate::drivers::history::obs_u(r, 0, 1);
        for (sa, sb) in signs {
            load_i_from_u(r, 0, sa, 0);
            load_i_from_u(r, 1, sb, 1);
            addsub::forms_i(r, true);
            for f in 0..div::U_FORMS {
                div::i_form(r, f);
            }
            for f in 0..6 {
                bits::logic_i(r, f);
            }
            // in-place bit writes (two's complement rewriting of a negative magnitude can clear its top digit)
            let bits_a = r.g.i[0].bits();
            for (n, ix) in [0u64, 5, 63, 64, bits_a.saturating_sub(1), bits_a].into_iter().enumerate() {
                let v = (n + k) % 2 == 0;
                let ex = format!("\"sc\":{},\"v\":{}", sc_list(&[ix.sc()]), v);
                r.clone_i(0, 2);
                r.i_mut("set_bit", "method", &ex, 2, |d| d.set_bit(ix, v));
                let ex = format!("\"sc\":{},\"v\":{}", sc_list(&[ix.sc()]), !v);
                r.clone_i(0, 2);
                r.i_mut("set_bit", "method", &ex, 2, |d| d.set_bit(ix, !v));
            }
            r.ii("mul", "ref_ref", 0, 1, 2, |x, y| x * y);
            r.clone_i(0, 2);
            r.i_assign("mul", "assign_val", 2, 1, |d, s| *d *= s.roomy());
            crate::drivers::history::obs_i(r, 0, 1);
        }
    }
}
