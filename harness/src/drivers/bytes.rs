//! C09 driver: byte / word import and export, signed bytes, digit iterators as deques.

use crate::gen::*;
use crate::rec::*;
use num_bigint::{BigInt, BigUint, Sign};

fn sgn_num(s: Sign) -> i64 {
    match s {
        Sign::Minus => -1,
        Sign::NoSign => 0,
        Sign::Plus => 1,
    }
}
fn flat32(ws: &[u32]) -> Vec<u8> {
    ws.iter().flat_map(|w| w.to_le_bytes()).collect()
}
fn flat64(ws: &[u64]) -> Vec<u8> {
    ws.iter().flat_map(|w| w.to_le_bytes()).collect()
}

/// exports of u0 / i0
pub fn exports(r: &mut Rec) {
    r.q_u("to_bytes_le", "method", "", 0, |a| Ret::none().bytes("bytes", &a.to_bytes_le()));
    r.q_u("to_bytes_be", "method", "", 0, |a| Ret::none().bytes("bytes", &a.to_bytes_be()));
    r.q_u("to_u32_digits", "method", "", 0, |a| Ret::none().bytes("bytes", &flat32(&a.to_u32_digits())));
    r.q_u("to_u64_digits", "method", "", 0, |a| Ret::none().bytes("bytes", &flat64(&a.to_u64_digits())));
    r.q_i("to_bytes_le", "method", "", 0, |a| {
        let (s, b) = a.to_bytes_le();
        Ret::none().n(sgn_num(s)).bytes("bytes", &b)
    });
    r.q_i("to_bytes_be", "method", "", 0, |a| {
        let (s, b) = a.to_bytes_be();
        Ret::none().n(sgn_num(s)).bytes("bytes", &b)
    });
    r.q_i("to_u32_digits", "method", "", 0, |a| {
        let (s, b) = a.to_u32_digits();
        Ret::none().n(sgn_num(s)).bytes("bytes", &flat32(&b))
    });
    r.q_i("to_u64_digits", "method", "", 0, |a| {
        let (s, b) = a.to_u64_digits();
        Ret::none().n(sgn_num(s)).bytes("bytes", &flat64(&b))
    });
    r.q_i("to_signed_bytes_le", "method", "", 0, |a| Ret::none().bytes("bytes", &a.to_signed_bytes_le()));
    r.q_i("to_signed_bytes_be", "method", "", 0, |a| Ret::none().bytes("bytes", &a.to_signed_bytes_be()));
    // the num_traits::ToBytes forms (plain magnitude bytes for BigUint, two's complement for BigInt)
    r.q_u("to_bytes_le", "trait_to_le_bytes", "", 0, |a| Ret::none().bytes("bytes", &num_traits::ToBytes::to_le_bytes(a)));
    r.q_u("to_bytes_be", "trait_to_be_bytes", "", 0, |a| Ret::none().bytes("bytes", &num_traits::ToBytes::to_be_bytes(a)));
    r.q_i("to_signed_bytes_le", "trait_to_le_bytes", "", 0, |a| Ret::none().bytes("bytes", &num_traits::ToBytes::to_le_bytes(a)));
    r.q_i("to_signed_bytes_be", "trait_to_be_bytes", "", 0, |a| Ret::none().bytes("bytes", &num_traits::ToBytes::to_be_bytes(a)));
    // collect() of the iterators, forwards and reversed
    r.q_u("iter_collect", "u32_fwd", "\"w\":4,\"rev\":false", 0, |a| Ret::none().bytes("bytes", &flat32(&a.iter_u32_digits().collect::<Vec<_>>())));
    r.q_u("iter_collect", "u32_rev", "\"w\":4,\"rev\":true", 0, |a| Ret::none().bytes("bytes", &flat32(&a.iter_u32_digits().rev().collect::<Vec<_>>())));
    r.q_u("iter_collect", "u64_fwd", "\"w\":8,\"rev\":false", 0, |a| Ret::none().bytes("bytes", &flat64(&a.iter_u64_digits().collect::<Vec<_>>())));
    r.q_u("iter_collect", "u64_rev", "\"w\":8,\"rev\":true", 0, |a| Ret::none().bytes("bytes", &flat64(&a.iter_u64_digits().rev().collect::<Vec<_>>())));
    r.q_i("iter_collect", "u32_fwd", "\"w\":4,\"rev\":false", 0, |a| Ret::none().bytes("bytes", &flat32(&a.iter_u32_digits().collect::<Vec<_>>())));
    r.q_i("iter_collect", "u64_rev", "\"w\":8,\"rev\":true", 0, |a| Ret::none().bytes("bytes", &flat64(&a.iter_u64_digits().rev().collect::<Vec<_>>())));
}

/// imports into u2 / i2 from a byte string
pub fn imports_bytes(r: &mut Rec, bytes: &[u8], sign: Sign) {
    let bj = bytes_json(bytes);
    let be: Vec<u8> = bytes.iter().rev().cloned().collect();
    r.op("from_bytes_le", "U", &[], &[u(2)], &format!("\"bytes\":{}", bj), |g| {
        g.u[2] = BigUint::from_bytes_le(bytes);
        Ret::none()
    });
    r.op("from_bytes_be", "U", &[], &[u(2)], &format!("\"bytes\":{}", bytes_json(&be)), |g| {
        g.u[2] = BigUint::from_bytes_be(&be);
        Ret::none()
    });
    r.op("from_bytes_le", "I", &[], &[i(2)], &format!("\"bytes\":{},\"sgn\":{}", bj, sgn_num(sign)), |g| {
        g.i[2] = BigInt::from_bytes_le(sign, bytes);
        Ret::none()
    });
    r.op("from_bytes_be", "I", &[], &[i(2)], &format!("\"bytes\":{},\"sgn\":{}", bytes_json(&be), sgn_num(sign)), |g| {
        g.i[2] = BigInt::from_bytes_be(sign, &be);
        Ret::none()
    });
    r.op("from_bytes_le", "U_trait_from_le_bytes", &[], &[u(2)], &format!("\"bytes\":{}", bj), |g| {
        g.u[2] = <BigUint as num_traits::FromBytes>::from_le_bytes(bytes);
        Ret::none()
    });
    r.op("from_bytes_be", "U_trait_from_be_bytes", &[], &[u(2)], &format!("\"bytes\":{}", bytes_json(&be)), |g| {
        g.u[2] = <BigUint as num_traits::FromBytes>::from_be_bytes(&be);
        Ret::none()
    });
    r.op("from_signed_bytes_le", "I_trait_from_le_bytes", &[], &[i(2)], &format!("\"bytes\":{}", bj), |g| {
        g.i[2] = <BigInt as num_traits::FromBytes>::from_le_bytes(bytes);
        Ret::none()
    });
    r.op("from_signed_bytes_be", "I_trait_from_be_bytes", &[], &[i(2)], &format!("\"bytes\":{}", bytes_json(&be)), |g| {
        g.i[2] = <BigInt as num_traits::FromBytes>::from_be_bytes(&be);
        Ret::none()
    });
    r.op("from_signed_bytes_le", "I", &[], &[i(2)], &format!("\"bytes\":{}", bj), |g| {
        g.i[2] = BigInt::from_signed_bytes_le(bytes);
        Ret::none()
    });
    r.op("from_signed_bytes_be", "I", &[], &[i(2)], &format!("\"bytes\":{}", bytes_json(&be)), |g| {
        g.i[2] = BigInt::from_signed_bytes_be(&be);
        Ret::none()
    });
}

pub fn imports_words(r: &mut Rec, ws: &[u32], sign: Sign) {
    let wj = words_json(ws);
    let ex_u = format!("\"words\":{}", wj);
    let ex_i = format!("\"words\":{},\"sgn\":{}", wj, sgn_num(sign));
    r.op("new_u32", "U", &[], &[u(2)], &ex_u, |g| {
        g.u[2] = BigUint::new(ws.to_vec());
        Ret::none()
    });
    r.op("new_u32", "U_from_slice", &[], &[u(2)], &ex_u, |g| {
        g.u[2] = BigUint::from_slice(ws);
        Ret::none()
    });
    // assign into a register that already holds something (buffer reuse, longer and shorter)
    r.op("new_u32", "U_assign_from_slice", &[], &[u(3)], &ex_u, |g| {
        g.u[3].assign_from_slice(ws);
        Ret::none()
    });
    r.op("new_u32", "I_new", &[], &[i(2)], &ex_i, |g| {
        g.i[2] = BigInt::new(sign, ws.to_vec());
        Ret::none()
    });
    r.op("new_u32", "I_from_slice", &[], &[i(2)], &ex_i, |g| {
        g.i[2] = BigInt::from_slice(sign, ws);
        Ret::none()
    });
    r.op("new_u32", "I_assign_from_slice", &[], &[i(3)], &ex_i, |g| {
        g.i[3].assign_from_slice(sign, ws);
        Ret::none()
    });
}

fn call_json(c: &str, k: usize, some: bool, w: &[u8], n: usize) -> String {
    format!("{{\"c\":\"{}\",\"k\":{},\"some\":{},\"w\":{},\"n\":{}}}", c, k, some, bytes_json(w), n.min(0x7fff_ffff))
}

macro_rules! iter_session {
    ($r:expr, $rng:expr, $reg:expr, $bank:ident, $idx:ident, $mk:ident, $wbytes:expr, $form:expr, $maxcalls:expr) => {{
        let ncalls = 1 + $rng.below($maxcalls) as usize;
        let script: Vec<(u64, usize)> = (0..ncalls).map(|_| ($rng.below(16), $rng.below(5) as usize)).collect();
        let fin = $rng.below(5);
        $r.op("iter", $form, &[$idx($reg)], &[], &format!("\"w\":{}", $wbytes), |g| {
            let mut it = g.$bank[$reg].$mk();
            let mut calls: Vec<String> = vec![];
            let wb = |x: Option<_>| -> (bool, Vec<u8>) {
                match x {
                    Some(v) => (true, { let v: u64 = v as u64; v.to_le_bytes()[..$wbytes].to_vec() }),
                    None => (false, vec![]),
                }
            };
            for (c, k) in script.iter() {
                match c {
                    0..=4 => { let (s, w) = wb(it.next()); calls.push(call_json("next", 0, s, &w, 0)); }
                    5..=8 => { let (s, w) = wb(it.next_back()); calls.push(call_json("next_back", 0, s, &w, 0)); }
                    9..=10 => { calls.push(call_json("len", 0, false, &[], it.len())); }
                    11 => { let (lo, hi) = it.size_hint(); calls.push(call_json("size_hint", 0, hi == Some(lo), &[], lo)); }
                    12..=13 => { let (s, w) = wb(it.nth(*k)); calls.push(call_json("nth", *k, s, &w, 0)); }
                    _ => { let (s, w) = wb(it.nth_back(*k)); calls.push(call_json("nth_back", *k, s, &w, 0)); }
                }
            }
            match fin {
                0 => { let (s, w) = wb(it.last()); calls.push(call_json("last", 0, s, &w, 0)); }
                1 => { calls.push(call_json("count", 0, false, &[], it.count())); }
                2 => { let v: Vec<u8> = it.flat_map(|x| (x as u64).to_le_bytes()[..$wbytes].to_vec()).collect(); calls.push(call_json("collect", 0, false, &v, 0)); }
                3 => { let v: Vec<u8> = it.rev().flat_map(|x| (x as u64).to_le_bytes()[..$wbytes].to_vec()).collect(); calls.push(call_json("collect_rev", 0, false, &v, 0)); }
                _ => { let (s, w) = wb(it.next()); calls.push(call_json("next", 0, s, &w, 0)); calls.push(call_json("len", 0, false, &[], it.len())); }
            }
            Ret::none().raw("calls", &format!("[{}]", calls.join(",")))
        });
    }};
}

pub fn iter_sessions(r: &mut Rec, rng: &mut Rng, n: usize, maxcalls: u64) {
    for _ in 0..n {
        iter_session!(r, rng, 0, u, u, iter_u32_digits, 4, "u32", maxcalls);
        iter_session!(r, rng, 0, u, u, iter_u64_digits, 8, "u64", maxcalls);
    }
    iter_session!(r, rng, 0, i, i, iter_u32_digits, 4, "u32_bigint", maxcalls);
    iter_session!(r, rng, 0, i, i, iter_u64_digits, 8, "u64_bigint", maxcalls);
}

fn value_case(r: &mut Rec, label: &str, d: &[u64], sign: Sign, sessions: usize) {
    if !r.case(label) {
        return;
    }
    let mut rng = r.case_rng();
    load_u_words(r, 0, d);
    load_i_from_u(r, 0, sign, 0);
    exports(r);
    iter_sessions(r, &mut rng, sessions, 10);
    // round trips through every export
    let sb = r.g.i[0].to_signed_bytes_le();
    imports_bytes(r, &sb, Sign::Plus);
    let (_, ub) = r.g.i[0].to_bytes_le();
    imports_bytes(r, &ub, sign);
    let ws = r.g.u[0].to_u32_digits();
    imports_words(r, &ws, sign);
}

fn slice_case(r: &mut Rec, label: &str, bytes: &[u8]) {
    if !r.case(label) {
        return;
    }
    let mut rng = r.case_rng();
    // something already in the assign targets
    let pl = rng.below(6) as usize;
    let pre = digits(&mut rng, pl, Pat::Random);
    load_u(r, 3, &pre);
    load_i(r, 3, Sign::Minus, &pre);
    for s in [Sign::Plus, Sign::Minus, Sign::NoSign] {
        imports_bytes(r, bytes, s);
    }
    // the same material as u32 words (odd and even counts)
    let mut ws: Vec<u32> = bytes.chunks(4).map(|c| {
        let mut b = [0u8; 4];
        b[..c.len()].copy_from_slice(c);
        u32::from_le_bytes(b)
    }).collect();
    for s in [Sign::Plus, Sign::Minus, Sign::NoSign] {
        imports_words(r, &ws, s);
    }
    ws.push(0);
    imports_words(r, &ws, Sign::Minus);
    ws.push(0);
    ws.push(0);
    imports_words(r, &ws, Sign::Plus);
}

pub fn run(r: &mut Rec) {
    let mut rng = Rng(r.seed ^ 0xC09);
    let sessions = if r.thorough { 12 } else { 4 };
    value_case(r, "zero", &[], Sign::NoSign, sessions);
    // top native digit with zero / non-zero upper half, lengths 1..5
    for len in 1..=5usize {
        for hi_zero in [true, false] {
            for rep in 0..(if r.thorough { 6 } else { 2 }) {
                let mut d = digits(&mut rng, len, if rep == 0 { Pat::Ones } else { Pat::Random });
                if hi_zero {
                    d[len - 1] &= 0xffff_ffff;
                    if d[len - 1] == 0 {
                        d[len - 1] = 1;
                    }
                } else {
                    d[len - 1] |= 1 << (32 + rng.below(32));
                }
                for s in [Sign::Plus, Sign::Minus] {
                    value_case(r, &format!("value len {} hi_zero {} {:?}", len, hi_zero, s), &d, s, sessions);
                }
            }
        }
    }
    // low halves zero (iterator yields zeros in the middle)
    for len in 2..=4usize {
        let mut d = vec![0u64; len];
        d[len - 1] = 1 << 32;
        value_case(r, &format!("sparse halves {}", len), &d, Sign::Minus, sessions);
        d[len - 1] = 1;
        value_case(r, &format!("sparse lo {}", len), &d, Sign::Plus, sessions);
    }
    // 2^(8k-1) and +-1: where the signed encoding changes length
    let kmax = if r.thorough { 40 } else { 20 };
    for k in 1..=kmax {
        let bit = 8 * k - 1;
        let p = BigUint::from(1u8) << bit;
        for delta in [-1i32, 0, 1] {
            let v: BigUint = if delta < 0 { &p - 1u32 } else { &p + delta as u32 };
            let d = v.verif_raw().to_vec();
            for s in [Sign::Plus, Sign::Minus] {
                if !r.thorough && k > 9 && k % 4 != 0 && delta != 0 {
                    continue;
                }
                value_case(r, &format!("2^{}{:+} {:?}", bit, delta, s), &d, s, 1);
            }
        }
    }
    // negative powers of two at other positions
    for bit in [0u32, 1, 6, 8, 9, 31, 32, 33, 62, 63, 64, 65, 127, 128] {
        let v = BigUint::from(1u8) << bit;
        value_case(r, &format!("-2^{}", bit), &v.verif_raw().to_vec(), Sign::Minus, 1);
    }
    // byte slices: empty, all-zero, padding 0..9 bytes of 0x00 / 0xff, random
    slice_case(r, "empty", &[]);
    for n in 1..=9usize {
        slice_case(r, &format!("zeros {}", n), &vec![0u8; n]);
        slice_case(r, &format!("ff {}", n), &vec![0xffu8; n]);
    }
    let body_lens: Vec<usize> = if r.thorough { vec![1, 2, 3, 4, 5, 7, 8, 9, 12, 15, 16, 17, 24, 33] } else { vec![1, 3, 4, 8, 9, 17] };
    for &bl in &body_lens {
        for pad in 0..=9usize {
            if !r.thorough && pad > 2 && pad != 8 && pad != 9 {
                continue;
            }
            for padv in [0x00u8, 0xff] {
                for top in [0x7fu8, 0x80, 0x01, 0xfe] {
                    let mut b: Vec<u8> = (0..bl).map(|_| rng.next() as u8).collect();
                    b[bl - 1] = top;
                    b.extend(std::iter::repeat(padv).take(pad));
                    slice_case(r, &format!("slice body {} pad {}x{:#x} top {:#x}", bl, pad, padv, top), &b);
                }
            }
        }
    }
}
