//! C10 driver: every overloaded operator form, called by name, against scalar extremes.

use crate::drivers::div::hint_q;
use crate::gen::*;
use crate::rec::*;
use num_bigint::{BigInt, BigUint, Sign};

fn sgn_of(neg: bool, zero: bool) -> i32 {
    if zero {
        0
    } else if neg {
        -1
    } else {
        1
    }
}
fn sc_parts(s: &Sc) -> (i32, Vec<u64>) {
    let mut v: u128 = 0;
    for (k, b) in s.m.iter().enumerate() {
        v |= (*b as u128) << (8 * k);
    }
    (sgn_of(s.neg, s.m.is_empty()), vec![v as u64, (v >> 64) as u64])
}
fn big_parts_u(x: &BigUint) -> (i32, Vec<u64>) {
    (if x.verif_raw().is_empty() { 0 } else { 1 }, x.verif_raw().to_vec())
}
fn big_parts_i(x: &BigInt) -> (i32, Vec<u64>) {
    let s = match x.sign() {
        Sign::Minus => -1,
        Sign::NoSign => 0,
        Sign::Plus => 1,
    };
    (s, x.magnitude().verif_raw().to_vec())
}
/// extra members for op with operands (big, scalar) in the given order; adds part/hint for division ops
fn extra(ty: &str, op: &str, s: &Sc, big: (i32, Vec<u64>), big_first: bool) -> String {
    let mut e = ex_sc(ty, &[s.clone()], if big_first { "rc" } else { "cr" });
    if op == "div" {
        e.push_str(",\"part\":\"q\"");
    } else if op == "rem" {
        let sp = sc_parts(s);
        let (a, b) = if big_first { (big, sp) } else { (sp, big) };
        e.push_str(&format!(",\"part\":\"r\",\"hint\":[{}]", hint_q("trunc", a.0, &a.1, b.0, &b.1)));
    }
    e
}

macro_rules! forms_for {
    ($r:expr, $bank:ident, $idx:ident, $ty:expr, $parts:ident, $t:ident, $s:expr, $name:expr, $op:tt, $opa:tt) => {{
        let s: $t = $s;
        let sc = s.sc();
        let big = $parts(&$r.g.$bank[0]);
        let e_bs = extra($ty, $name, &sc, big.clone(), true);
        let e_sb = extra($ty, $name, &sc, big.clone(), false);
        let tn = stringify!($t);
        $r.op($name, &format!("val_{}", tn), &[$idx(0)], &[$idx(2)], &e_bs, |g| { g.$bank[2] = g.$bank[0].roomy() $op s; Ret::none() });
        $r.op($name, &format!("ref_{}", tn), &[$idx(0)], &[$idx(2)], &e_bs, |g| { g.$bank[2] = &g.$bank[0] $op s; Ret::none() });
        $r.op($name, &format!("val_ref{}", tn), &[$idx(0)], &[$idx(2)], &e_bs, |g| { g.$bank[2] = g.$bank[0].roomy() $op &s; Ret::none() });
        $r.op($name, &format!("ref_ref{}", tn), &[$idx(0)], &[$idx(2)], &e_bs, |g| { g.$bank[2] = &g.$bank[0] $op &s; Ret::none() });
        $r.op($name, &format!("{}_val", tn), &[$idx(0)], &[$idx(2)], &e_sb, |g| { g.$bank[2] = s $op g.$bank[0].roomy(); Ret::none() });
        $r.op($name, &format!("{}_ref", tn), &[$idx(0)], &[$idx(2)], &e_sb, |g| { g.$bank[2] = s $op &g.$bank[0]; Ret::none() });
        $r.op($name, &format!("ref{}_val", tn), &[$idx(0)], &[$idx(2)], &e_sb, |g| { g.$bank[2] = &s $op g.$bank[0].roomy(); Ret::none() });
        $r.op($name, &format!("ref{}_ref", tn), &[$idx(0)], &[$idx(2)], &e_sb, |g| { g.$bank[2] = &s $op &g.$bank[0]; Ret::none() });
        $r.op("clone", "clone", &[$idx(0)], &[$idx(2)], &format!("\"ty\":\"{}\"", $ty), |g| { g.$bank[2] = g.$bank[0].roomy(); Ret::none() });
        $r.op($name, &format!("assign_{}", tn), &[$idx(2)], &[$idx(2)], &e_bs, |g| { g.$bank[2] $opa s; Ret::none() });
    }};
}

macro_rules! all_ops {
    ($r:expr, $bank:ident, $idx:ident, $ty:expr, $parts:ident, $t:ident, $s:expr) => {{
        forms_for!($r, $bank, $idx, $ty, $parts, $t, $s, "add", +, +=);
        forms_for!($r, $bank, $idx, $ty, $parts, $t, $s, "sub", -, -=);
        forms_for!($r, $bank, $idx, $ty, $parts, $t, $s, "mul", *, *=);
        forms_for!($r, $bank, $idx, $ty, $parts, $t, $s, "div", /, /=);
        forms_for!($r, $bank, $idx, $ty, $parts, $t, $s, "rem", %, %=);
    }};
}

/// scalar %= big (the result stays a primitive)
macro_rules! rem_into_prim {
    ($r:expr, $t:ident, $s:expr) => {{
        let s: $t = $s;
        let sc = s.sc();
        let sp = sc_parts(&sc);
        let bu = big_parts_u(&$r.g.u[0]);
        let h = hint_q("trunc", sp.0, &sp.1, bu.0, &bu.1);
        let ex = format!("{},\"hint\":[{}]", ex_sc("U", &[sc.clone()], "cr"), h);
        let tn = stringify!($t);
        $r.op("rem_prim", &format!("{}_assign_ref", tn), &[u(0)], &[], &ex, |g| { let mut x = s; x %= &g.u[0]; Ret::none().z(&[x.sc()]) });
        $r.op("rem_prim", &format!("{}_assign_val", tn), &[u(0)], &[], &ex, |g| { let mut x = s; x %= g.u[0].roomy(); Ret::none().z(&[x.sc()]) });
    }};
}

fn scalar_bank_u<T: Copy>(vals: &[T], k: usize) -> T {
    vals[k % vals.len()]
}

fn big_case(r: &mut Rec, label: &str, d: &[u64], sign: Sign, k: usize) {
    if !r.case(label) {
        return;
    }
    load_u(r, 0, d);
    load_i_from_u(r, 0, sign, 0);
    // unsigned scalars on both big types
    all_ops!(r, u, u, "U", big_parts_u, u8, scalar_bank_u(&[0u8, 1, u8::MAX, 2, 0x80], k));
    all_ops!(r, u, u, "U", big_parts_u, u16, scalar_bank_u(&[0u16, 1, u16::MAX, 3, 0x8000], k + 1));
    all_ops!(r, u, u, "U", big_parts_u, u32, scalar_bank_u(&[0u32, 1, u32::MAX, 7, 0x8000_0000], k + 2));
    all_ops!(r, u, u, "U", big_parts_u, u64, scalar_bank_u(&[0u64, 1, u64::MAX, 1 << 32, 1 << 63, (1 << 32) + 1], k + 3));
    all_ops!(r, u, u, "U", big_parts_u, u128, scalar_bank_u(&[0u128, 1, u128::MAX, 1 << 64, (1 << 64) + 1, u64::MAX as u128, 1 << 127, (1 << 96) + 5], k + 4));
    all_ops!(r, u, u, "U", big_parts_u, usize, scalar_bank_u(&[0usize, 1, usize::MAX, 1 << 32, 10], k));
    all_ops!(r, i, i, "I", big_parts_i, u8, scalar_bank_u(&[0u8, 1, u8::MAX, 2, 0x80], k + 1));
    all_ops!(r, i, i, "I", big_parts_i, u16, scalar_bank_u(&[0u16, 1, u16::MAX, 3, 0x8000], k + 2));
    all_ops!(r, i, i, "I", big_parts_i, u32, scalar_bank_u(&[0u32, 1, u32::MAX, 7, 0x8000_0000], k + 3));
    all_ops!(r, i, i, "I", big_parts_i, u64, scalar_bank_u(&[0u64, 1, u64::MAX, 1 << 32, 1 << 63], k + 4));
    all_ops!(r, i, i, "I", big_parts_i, u128, scalar_bank_u(&[0u128, 1, u128::MAX, 1 << 64, (1 << 64) + 1, 1 << 127], k));
    all_ops!(r, i, i, "I", big_parts_i, usize, scalar_bank_u(&[0usize, 1, usize::MAX, 1 << 32], k + 1));
    // signed scalars (BigInt only)
    all_ops!(r, i, i, "I", big_parts_i, i8, scalar_bank_u(&[0i8, 1, -1, i8::MAX, i8::MIN, 2, -2], k));
    all_ops!(r, i, i, "I", big_parts_i, i16, scalar_bank_u(&[0i16, 1, -1, i16::MAX, i16::MIN, 3], k + 1));
    all_ops!(r, i, i, "I", big_parts_i, i32, scalar_bank_u(&[0i32, 1, -1, i32::MAX, i32::MIN, -7], k + 2));
    all_ops!(r, i, i, "I", big_parts_i, i64, scalar_bank_u(&[0i64, 1, -1, i64::MAX, i64::MIN, -(1 << 32), 1 << 40], k + 3));
    all_ops!(r, i, i, "I", big_parts_i, i128, scalar_bank_u(&[0i128, 1, -1, i128::MAX, i128::MIN, -(1 << 64), (1 << 64) + 1, -(1 << 100)], k + 4));
    all_ops!(r, i, i, "I", big_parts_i, isize, scalar_bank_u(&[0isize, 1, -1, isize::MAX, isize::MIN, -5], k));
    // primitive %= BigUint for all twelve scalar types
    rem_into_prim!(r, u8, scalar_bank_u(&[0u8, 1, u8::MAX, 0x80, 100], k));
    rem_into_prim!(r, u16, scalar_bank_u(&[0u16, 1, u16::MAX, 0x8000], k));
    rem_into_prim!(r, u32, scalar_bank_u(&[0u32, 1, u32::MAX, 0x8000_0000], k));
    rem_into_prim!(r, u64, scalar_bank_u(&[0u64, 1, u64::MAX, 1 << 63], k));
    rem_into_prim!(r, u128, scalar_bank_u(&[0u128, 1, u128::MAX, 1 << 127, (1 << 64) + 3], k));
    rem_into_prim!(r, usize, scalar_bank_u(&[0usize, 1, usize::MAX], k));
    rem_into_prim!(r, i8, scalar_bank_u(&[i8::MIN, -1, i8::MAX, 0, -100, i8::MIN + 1], k));
    rem_into_prim!(r, i16, scalar_bank_u(&[i16::MIN, -1, i16::MAX, 0, i16::MIN + 1], k));
    rem_into_prim!(r, i32, scalar_bank_u(&[i32::MIN, -1, i32::MAX, 0, i32::MIN + 1], k));
    rem_into_prim!(r, i64, scalar_bank_u(&[i64::MIN, -1, i64::MAX, 0, i64::MIN + 1], k));
    rem_into_prim!(r, i128, scalar_bank_u(&[i128::MIN, -1, i128::MAX, 0, i128::MIN + 1], k));
    rem_into_prim!(r, isize, scalar_bank_u(&[isize::MIN, -1, isize::MAX, 0], k));
    // the MIN edge of every signed type, whatever the bank picked
    rem_into_prim!(r, i8, i8::MIN);
    rem_into_prim!(r, i16, i16::MIN);
    rem_into_prim!(r, i32, i32::MIN);
    rem_into_prim!(r, i64, i64::MIN);
    rem_into_prim!(r, i128, i128::MIN);
    rem_into_prim!(r, isize, isize::MIN);
}

/// every operator form with the MIN and MAX of every scalar type (the values where `abs`, negation and widening
/// differ between overflow-checked and wrapping builds)
pub fn extremes_case(r: &mut Rec, label: &str, d: &[u64], sign: Sign) {
    if !r.case(label) {
        return;
    }
    load_u(r, 0, d);
    load_i_from_u(r, 0, sign, 0);
    all_ops!(r, u, u, "U", big_parts_u, u8, u8::MAX);
    all_ops!(r, u, u, "U", big_parts_u, u16, u16::MAX);
    all_ops!(r, u, u, "U", big_parts_u, u32, u32::MAX);
    all_ops!(r, u, u, "U", big_parts_u, u64, u64::MAX);
    all_ops!(r, u, u, "U", big_parts_u, u128, u128::MAX);
    all_ops!(r, u, u, "U", big_parts_u, usize, usize::MAX);
    all_ops!(r, i, i, "I", big_parts_i, u64, u64::MAX);
    all_ops!(r, i, i, "I", big_parts_i, u128, u128::MAX);
    all_ops!(r, i, i, "I", big_parts_i, i8, i8::MIN);
    all_ops!(r, i, i, "I", big_parts_i, i8, i8::MAX);
    all_ops!(r, i, i, "I", big_parts_i, i16, i16::MIN);
    all_ops!(r, i, i, "I", big_parts_i, i16, i16::MAX);
    all_ops!(r, i, i, "I", big_parts_i, i32, i32::MIN);
    all_ops!(r, i, i, "I", big_parts_i, i32, i32::MAX);
    all_ops!(r, i, i, "I", big_parts_i, i64, i64::MIN);
    all_ops!(r, i, i, "I", big_parts_i, i64, i64::MAX);
    all_ops!(r, i, i, "I", big_parts_i, i128, i128::MIN);
    all_ops!(r, i, i, "I", big_parts_i, i128, i128::MAX);
    all_ops!(r, i, i, "I", big_parts_i, isize, isize::MIN);
    all_ops!(r, i, i, "I", big_parts_i, isize, isize::MAX);
}

pub fn extremes(r: &mut Rec) {
    extremes_case(r, "extremes small negative", &[77], Sign::Minus);
    extremes_case(r, "extremes two digits", &[0x1234_5678_9abc_def0, 0x0fed_cba9], Sign::Plus);
    extremes_case(r, "extremes 2^127", &[0, 1 << 63], Sign::Minus);
    extremes_case(r, "extremes three digits", &[u64::MAX, 0, 1], Sign::Minus);
}

fn sums(r: &mut Rec, k: usize) {
    use std::iter::{Product, Sum};
    let n = 1 + k % 4;
    let srcs_u: Vec<usize> = (0..n).map(u).collect();
    let srcs_i: Vec<usize> = (0..n).map(i).collect();
    r.op("sum", "U_owned", &srcs_u, &[u(5)], "\"ty\":\"U\"", |g| { g.u[5] = BigUint::sum(g.u[..n].iter().cloned()); Ret::none() });
    r.op("sum", "U_refs", &srcs_u, &[u(5)], "\"ty\":\"U\"", |g| { g.u[5] = BigUint::sum(g.u[..n].iter()); Ret::none() });
    r.op("product", "U_owned", &srcs_u, &[u(5)], "\"ty\":\"U\"", |g| { g.u[5] = BigUint::product(g.u[..n].iter().cloned()); Ret::none() });
    r.op("product", "U_refs", &srcs_u, &[u(5)], "\"ty\":\"U\"", |g| { g.u[5] = BigUint::product(g.u[..n].iter()); Ret::none() });
    r.op("sum", "I_owned", &srcs_i, &[i(5)], "\"ty\":\"I\"", |g| { g.i[5] = BigInt::sum(g.i[..n].iter().cloned()); Ret::none() });
    r.op("sum", "I_refs", &srcs_i, &[i(5)], "\"ty\":\"I\"", |g| { g.i[5] = g.i[..n].iter().sum(); Ret::none() });
    r.op("product", "I_owned", &srcs_i, &[i(5)], "\"ty\":\"I\"", |g| { g.i[5] = g.i[..n].iter().cloned().product(); Ret::none() });
    r.op("product", "I_refs", &srcs_i, &[i(5)], "\"ty\":\"I\"", |g| { g.i[5] = BigInt::product(g.i[..n].iter()); Ret::none() });
    r.op("sum", "U_empty", &[], &[u(5)], "\"ty\":\"U\"", |g| { g.u[5] = BigUint::sum(std::iter::empty::<BigUint>()); Ret::none() });
    r.op("product", "I_empty", &[], &[i(5)], "\"ty\":\"I\"", |g| { g.i[5] = BigInt::product(std::iter::empty::<&BigInt>()); Ret::none() });
}

pub fn run(r: &mut Rec) {
    let mut rng = Rng(r.seed ^ 0xC10);
    // big operands shorter and longer than the scalars: 0, one digit (small / large), 2, 3 and 5 digits
    let mut bigs: Vec<Vec<u64>> = vec![vec![], vec![1], vec![5], vec![128], vec![0x8000], vec![1 << 31], vec![1 << 32], vec![1 << 63], vec![u64::MAX], vec![0, 1], vec![u64::MAX, u64::MAX],
                                       vec![0, 0, 1], vec![0, 1 << 63],
                                       // all ones over three and four digits: a scalar's carry has to leave through the top
                                       vec![u64::MAX, u64::MAX, u64::MAX], vec![u64::MAX - 1, u64::MAX, u64::MAX, u64::MAX]];
    for len in [1usize, 2, 3, 5] {
        for _ in 0..(if r.thorough { 4 } else { 1 }) {
            bigs.push(digits_p(&mut rng, len, &[Pat::Random, Pat::Ones, Pat::Landmark]));
        }
    }
    let reps = if r.thorough { 8 } else { 3 };
    for (bi, d) in bigs.iter().enumerate() {
        for rep in 0..reps {
            let sign = if (bi + rep) % 2 == 0 { Sign::Minus } else { Sign::Plus };
            big_case(r, &format!("big#{} rep {}", bi, rep), d, sign, bi * 3 + rep);
        }
    }
    extremes(r);
    // structured operands where the value/reference forms take different code paths
    crate::drivers::addsub::chains(r, if r.thorough { 14 } else { 9 }, r.thorough);
    crate::drivers::bits::pow64_family(r);
    // Sum / Product over mixed operands
    for k in 0..(if r.thorough { 60 } else { 16 }) {
        if !r.case(&format!("sum/product {}", k)) {
            continue;
        }
        for j in 0..4usize {
            let len = rng.below(4) as usize;
            let d = digits_p(&mut rng, len, &[Pat::Random, Pat::Ones, Pat::Pow2]);
            load_u(r, j, &d);
            load_i_from_u(r, j, *rng.pick(&[Sign::Plus, Sign::Minus]), j);
        }
        sums(r, k);
    }
    // the big-by-big value/reference forms of the bitwise and shift operators
    for k in 0..(if r.thorough { 40 } else { 10 }) {
        if !r.case(&format!("bit forms {}", k)) {
            continue;
        }
        let (la, lb) = (1 + rng.below(3) as usize, 1 + rng.below(3) as usize);
        let a = digits_p(&mut rng, la, &[Pat::Random, Pat::Pow2, Pat::Ones]);
        let b = digits_p(&mut rng, lb, &[Pat::Random, Pat::Pow2, Pat::LowZeros]);
        load_u(r, 0, &a);
        load_u(r, 1, &b);
        load_i_from_u(r, 0, *rng.pick(&[Sign::Plus, Sign::Minus]), 0);
        load_i_from_u(r, 1, *rng.pick(&[Sign::Plus, Sign::Minus]), 1);
        for f in 0..6 {
            crate::drivers::bits::logic_i(r, f);
        }
        crate::drivers::addsub::forms_u(r);
        crate::drivers::addsub::forms_i(r, true);
        for f in 0..crate::drivers::div::U_FORMS {
            crate::drivers::div::u_form(r, f);
            crate::drivers::div::i_form(r, f);
        }
    }
}
