//! C16 driver: one deterministic transcript, identical in every feature configuration and profile.
//! It leans on the operations whose code is feature-conditional (radix export buffer estimate, root
//! initial guesses) and adds a cross-section of the other families.

use crate::drivers::{numth, text};
use crate::gen::*;
use crate::rec::*;
use num_bigint::Sign;

pub fn run(r: &mut Rec) {
    numth::run_roots(r);
    text::run(r);
    // the MIN / MAX of every scalar type through every operator form (overflow-checked and wrapping builds must agree)
    crate::drivers::forms::extremes(r);
    // bit writes around the lowest set bit at the digit boundaries (mask arithmetic that overflows only with checks on)
    crate::drivers::bits::lowbit_family(r, false);
    // Montgomery reduction on moduli with runs of all-ones digits (carry / borrow arithmetic that wraps in release)
    crate::drivers::modpow::ones_run_family(r, 4);
    // cross-section: arithmetic, division conventions, bits, conversions on fixed operands
    let mut rng = Rng(r.seed ^ 0xC16);
    for k in 0..40 {
        if !r.case(&format!("cross {}", k)) {
            continue;
        }
        let la = 1 + (k % 9) as usize;
        let lb = 1 + (k % 4) as usize;
        let a = digits_p(&mut rng, la, &[Pat::Random, Pat::Ones, Pat::Landmark]);
        let b = digits_p(&mut rng, lb, &[Pat::Random, Pat::Pow2, Pat::Landmark]);
        load_u(r, 0, &a);
        load_u(r, 1, &b);
        crate::drivers::addsub::forms_u(r);
        for f in 0..crate::drivers::div::U_FORMS {
            crate::drivers::div::u_form(r, f);
        }
        load_i_from_u(r, 0, Sign::Minus, 0);
        load_i_from_u(r, 1, Sign::Plus, 1);
        crate::drivers::addsub::forms_i(r, true);
        for f in 0..crate::drivers::div::U_FORMS {
            crate::drivers::div::i_form(r, f);
        }
        crate::drivers::bits::logic_i(r, k as u64);
        crate::drivers::conv::to_floats(r);
        crate::drivers::conv::to_prims(r);
        r.uu("mul", "ref_ref", 0, 1, 2, |a, b| a * b);
    }
}
