//! C17 driver: a recording Serializer and a token-replay Deserializer (no serde_test available).
#![cfg(feature = "serde")]

use crate::gen::*;
use crate::rec::*;
use num_bigint::{BigInt, BigUint, Sign};
use serde::de::{self, DeserializeSeed, SeqAccess, Visitor};
use serde::ser::{self, Impossible, SerializeSeq, SerializeTuple};
use serde::{Deserialize, Serialize};
use std::fmt;

#[derive(Clone, Debug, PartialEq)]
pub enum Tok {
    Seq(Option<usize>),
    SeqEnd,
    Tuple(usize),
    TupleEnd,
    U32(u32),
    I8(i8),
    Other(&'static str),
}

#[derive(Debug)]
pub struct Err(String);
impl fmt::Display for Err {
    fn fmt(&self, f: &mut fmt::Formatter<'_>) -> fmt::Result {
        f.write_str(&self.0)
    }
}
impl std::error::Error for Err {}
impl ser::Error for Err {
    fn custom<T: fmt::Display>(m: T) -> Self {
        Err(m.to_string())
    }
}
impl de::Error for Err {
    fn custom<T: fmt::Display>(m: T) -> Self {
        Err(m.to_string())
    }
}

pub struct TokSer<'a>(pub &'a mut Vec<Tok>);

macro_rules! unsupported {
    ($($f:ident($t:ty)),*) => {$(
        fn $f(self, _v: $t) -> Result<(), Err> { self.0.push(Tok::Other(stringify!($f))); Ok(()) }
    )*};
}

impl<'a> ser::Serializer for TokSer<'a> {
    type Ok = ();
    type Error = Err;
    type SerializeSeq = TokSeq<'a>;
    type SerializeTuple = TokSeq<'a>;
    type SerializeTupleStruct = Impossible<(), Err>;
    type SerializeTupleVariant = Impossible<(), Err>;
    type SerializeMap = Impossible<(), Err>;
    type SerializeStruct = Impossible<(), Err>;
    type SerializeStructVariant = Impossible<(), Err>;
    fn serialize_u32(self, v: u32) -> Result<(), Err> {
        self.0.push(Tok::U32(v));
        Ok(())
    }
    fn serialize_i8(self, v: i8) -> Result<(), Err> {
        self.0.push(Tok::I8(v));
        Ok(())
    }
    unsupported!(serialize_bool(bool), serialize_i16(i16), serialize_i32(i32), serialize_i64(i64), serialize_u8(u8), serialize_u16(u16), serialize_u64(u64),
                 serialize_f32(f32), serialize_f64(f64), serialize_char(char), serialize_str(&str), serialize_bytes(&[u8]));
    fn serialize_none(self) -> Result<(), Err> {
        self.0.push(Tok::Other("none"));
        Ok(())
    }
    fn serialize_some<T: ?Sized + Serialize>(self, _v: &T) -> Result<(), Err> {
        self.0.push(Tok::Other("some"));
        Ok(())
    }
    fn serialize_unit(self) -> Result<(), Err> {
        self.0.push(Tok::Other("unit"));
        Ok(())
    }
    fn serialize_unit_struct(self, _n: &'static str) -> Result<(), Err> {
        self.0.push(Tok::Other("unit_struct"));
        Ok(())
    }
    fn serialize_unit_variant(self, _n: &'static str, _i: u32, _v: &'static str) -> Result<(), Err> {
        self.0.push(Tok::Other("unit_variant"));
        Ok(())
    }
    fn serialize_newtype_struct<T: ?Sized + Serialize>(self, _n: &'static str, _v: &T) -> Result<(), Err> {
        self.0.push(Tok::Other("newtype_struct"));
        Ok(())
    }
    fn serialize_newtype_variant<T: ?Sized + Serialize>(self, _n: &'static str, _i: u32, _v: &'static str, _x: &T) -> Result<(), Err> {
        self.0.push(Tok::Other("newtype_variant"));
        Ok(())
    }
    fn serialize_seq(self, len: Option<usize>) -> Result<TokSeq<'a>, Err> {
        self.0.push(Tok::Seq(len));
        Ok(TokSeq(self.0, Tok::SeqEnd))
    }
    fn serialize_tuple(self, len: usize) -> Result<TokSeq<'a>, Err> {
        self.0.push(Tok::Tuple(len));
        Ok(TokSeq(self.0, Tok::TupleEnd))
    }
    fn serialize_tuple_struct(self, _n: &'static str, _l: usize) -> Result<Self::SerializeTupleStruct, Err> {
        Result::Err(Err("tuple_struct".into()))
    }
    fn serialize_tuple_variant(self, _n: &'static str, _i: u32, _v: &'static str, _l: usize) -> Result<Self::SerializeTupleVariant, Err> {
        Result::Err(Err("tuple_variant".into()))
    }
    fn serialize_map(self, _l: Option<usize>) -> Result<Self::SerializeMap, Err> {
        Result::Err(Err("map".into()))
    }
    fn serialize_struct(self, _n: &'static str, _l: usize) -> Result<Self::SerializeStruct, Err> {
        Result::Err(Err("struct".into()))
    }
    fn serialize_struct_variant(self, _n: &'static str, _i: u32, _v: &'static str, _l: usize) -> Result<Self::SerializeStructVariant, Err> {
        Result::Err(Err("struct_variant".into()))
    }
    fn collect_str<T: ?Sized + fmt::Display>(self, _v: &T) -> Result<(), Err> {
        self.0.push(Tok::Other("str"));
        Ok(())
    }
}

pub struct TokSeq<'a>(&'a mut Vec<Tok>, Tok);
impl<'a> SerializeSeq for TokSeq<'a> {
    type Ok = ();
    type Error = Err;
    fn serialize_element<T: ?Sized + Serialize>(&mut self, v: &T) -> Result<(), Err> {
        v.serialize(TokSer(self.0))
    }
    fn end(self) -> Result<(), Err> {
        self.0.push(self.1.clone());
        Ok(())
    }
}
impl<'a> SerializeTuple for TokSeq<'a> {
    type Ok = ();
    type Error = Err;
    fn serialize_element<T: ?Sized + Serialize>(&mut self, v: &T) -> Result<(), Err> {
        v.serialize(TokSer(self.0))
    }
    fn end(self) -> Result<(), Err> {
        self.0.push(self.1.clone());
        Ok(())
    }
}

/// how the replaying deserializer answers size_hint
#[derive(Clone, Copy, Debug)]
pub enum Hint {
    Exact,
    None,
    TooSmall,
    TooLarge,
    /// hostile hints: the largest usize, just above a quarter of it, a power of two whose byte count wraps
    Max,
    QuarterMax,
    Pow62,
}

pub struct TokDe<'a> {
    toks: &'a [Tok],
    pos: usize,
    hint: Hint,
}
impl<'a> TokDe<'a> {
    fn next(&mut self) -> Option<Tok> {
        let t = self.toks.get(self.pos).cloned();
        self.pos += 1;
        t
    }
    fn peek(&self) -> Option<&Tok> {
        self.toks.get(self.pos)
    }
}

impl<'de, 'a, 'b> de::Deserializer<'de> for &'b mut TokDe<'a> {
    type Error = Err;
    fn deserialize_any<V: Visitor<'de>>(self, v: V) -> Result<V::Value, Err> {
        match self.peek().cloned() {
            Some(Tok::U32(_)) => self.deserialize_u32(v),
            Some(Tok::I8(_)) => self.deserialize_i8(v),
            Some(Tok::Seq(_)) => self.deserialize_seq(v),
            Some(Tok::Tuple(n)) => self.deserialize_tuple(n, v),
            _ => Result::Err(Err("unexpected token".into())),
        }
    }
    fn deserialize_u32<V: Visitor<'de>>(self, v: V) -> Result<V::Value, Err> {
        match self.next() {
            Some(Tok::U32(x)) => v.visit_u32(x),
            _ => Result::Err(Err("expected u32".into())),
        }
    }
    fn deserialize_i8<V: Visitor<'de>>(self, v: V) -> Result<V::Value, Err> {
        match self.next() {
            Some(Tok::I8(x)) => v.visit_i8(x),
            _ => Result::Err(Err("expected i8".into())),
        }
    }
    fn deserialize_seq<V: Visitor<'de>>(self, v: V) -> Result<V::Value, Err> {
        match self.next() {
            Some(Tok::Seq(_)) => {
                // count elements up to the matching end for the hint
                let mut n = 0;
                let mut k = self.pos;
                while k < self.toks.len() && self.toks[k] != Tok::SeqEnd {
                    n += 1;
                    k += 1;
                }
                let hint = match self.hint {
                    Hint::Exact => Some(n),
                    Hint::None => None,
                    Hint::TooSmall => Some(n / 2),
                    Hint::TooLarge => Some(n * 3 + 1_000_000),
                    Hint::Max => Some(usize::MAX),
                    Hint::QuarterMax => Some(usize::MAX / 4 + 1),
                    Hint::Pow62 => Some((1usize << 62) + n),
                };
                let r = v.visit_seq(TokSeqAccess { de: self, end: Tok::SeqEnd, hint })?;
                match self.next() {
                    Some(Tok::SeqEnd) => Ok(r),
                    _ => Result::Err(Err("sequence not consumed".into())),
                }
            }
            _ => Result::Err(Err("expected seq".into())),
        }
    }
    fn deserialize_tuple<V: Visitor<'de>>(self, _len: usize, v: V) -> Result<V::Value, Err> {
        match self.next() {
            Some(Tok::Tuple(n)) => {
                let r = v.visit_seq(TokSeqAccess { de: self, end: Tok::TupleEnd, hint: Some(n) })?;
                match self.next() {
                    Some(Tok::TupleEnd) => Ok(r),
                    _ => Result::Err(Err("tuple not consumed".into())),
                }
            }
            _ => Result::Err(Err("expected tuple".into())),
        }
    }
    serde::forward_to_deserialize_any! {
        bool i16 i32 i64 i128 u8 u16 u64 u128 f32 f64 char str string bytes byte_buf option unit unit_struct newtype_struct
        tuple_struct map struct enum identifier ignored_any
    }
}

struct TokSeqAccess<'b, 'a> {
    de: &'b mut TokDe<'a>,
    end: Tok,
    hint: Option<usize>,
}
impl<'de, 'b, 'a> SeqAccess<'de> for TokSeqAccess<'b, 'a> {
    type Error = Err;
    fn next_element_seed<T: DeserializeSeed<'de>>(&mut self, seed: T) -> Result<Option<T::Value>, Err> {
        match self.de.peek() {
            Some(t) if *t == self.end => Ok(None),
            None => Ok(None),
            _ => seed.deserialize(&mut *self.de).map(Some),
        }
    }
    fn size_hint(&self) -> Option<usize> {
        self.hint
    }
}

fn toks_json(t: &[Tok]) -> String {
    // {"len": declared length (-1 if none), "elems": flattened u32 words as bytes, "count": elements, "sign": i8 (for tuples), "shape": "seq" | "tuple" | "other"}
    let mut shape = "seq";
    let mut sign: i64 = 0;
    let mut rest = t;
    if let Some(Tok::Tuple(2)) = t.first() {
        shape = "tuple";
        if let Some(Tok::I8(s)) = t.get(1) {
            sign = *s as i64;
        } else {
            shape = "other";
        }
        if t.last() != Some(&Tok::TupleEnd) || t.len() < 4 {
            shape = "other";
        } else {
            rest = &t[2..t.len() - 1];
        }
    }
    let mut declared: i64 = -1;
    let mut elems: Vec<u8> = vec![];
    let mut count = 0;
    match rest.first() {
        Some(Tok::Seq(l)) if rest.last() == Some(&Tok::SeqEnd) => {
            declared = l.map(|x| x as i64).unwrap_or(-1);
            for x in &rest[1..rest.len() - 1] {
                if let Tok::U32(w) = x {
                    elems.extend_from_slice(&w.to_le_bytes());
                    count += 1;
                } else {
                    shape = "other";
                }
            }
        }
        _ => shape = "other",
    }
    format!("{{\"shape\":\"{}\",\"sign\":{},\"len\":{},\"count\":{},\"elems\":{}}}", shape, sign, declared, count, bytes_json(&elems))
}

fn ser_u(r: &mut Rec) {
    r.q_u("serialize", "U", "", 0, |a| {
        let mut t = vec![];
        a.serialize(TokSer(&mut t)).unwrap();
        Ret::none().raw("toks", &toks_json(&t))
    });
}
fn ser_i(r: &mut Rec) {
    r.q_i("serialize", "I", "", 0, |a| {
        let mut t = vec![];
        a.serialize(TokSer(&mut t)).unwrap();
        Ret::none().raw("toks", &toks_json(&t))
    });
}

fn de_u(r: &mut Rec, words: &[u32], hint: Hint) {
    let mut t = vec![Tok::Seq(Some(words.len()))];
    t.extend(words.iter().map(|w| Tok::U32(*w)));
    t.push(Tok::SeqEnd);
    r.op("deserialize", &format!("U_{:?}", hint), &[], &[u(2)], &format!("\"ty\":\"U\",\"toks\":{}", toks_json(&t)), |g| {
        let mut d = TokDe { toks: &t, pos: 0, hint };
        let v = BigUint::deserialize(&mut d);
        let some = v.is_ok();
        g.u[2] = v.unwrap_or_default();
        Ret::none().some(some)
    });
}
fn de_i(r: &mut Rec, sign: i8, words: &[u32], hint: Hint) {
    let mut t = vec![Tok::Tuple(2), Tok::I8(sign), Tok::Seq(Some(words.len()))];
    t.extend(words.iter().map(|w| Tok::U32(*w)));
    t.push(Tok::SeqEnd);
    t.push(Tok::TupleEnd);
    r.op("deserialize", &format!("I_{:?}", hint), &[], &[i(2)], &format!("\"ty\":\"I\",\"toks\":{}", toks_json(&t)), |g| {
        let mut d = TokDe { toks: &t, pos: 0, hint };
        let v = BigInt::deserialize(&mut d);
        let some = v.is_ok();
        g.i[2] = v.unwrap_or_default();
        Ret::none().some(some)
    });
}

fn roundtrip(r: &mut Rec) {
    // deserialize(serialize(x)) into u2 / i2, to be equal to u0 / i0
    r.op("serde_roundtrip", "U", &[u(0)], &[u(2)], "\"ty\":\"U\"", |g| {
        let mut t = vec![];
        g.u[0].serialize(TokSer(&mut t)).unwrap();
        let mut d = TokDe { toks: &t, pos: 0, hint: Hint::Exact };
        g.u[2] = BigUint::deserialize(&mut d).unwrap();
        Ret::none()
    });
    r.op("serde_roundtrip", "I", &[i(0)], &[i(2)], "\"ty\":\"I\"", |g| {
        let mut t = vec![];
        g.i[0].serialize(TokSer(&mut t)).unwrap();
        let mut d = TokDe { toks: &t, pos: 0, hint: Hint::None };
        g.i[2] = BigInt::deserialize(&mut d).unwrap();
        Ret::none()
    });
}

pub fn run(r: &mut Rec) {
    let mut rng = Rng(r.seed ^ 0xC17);
    let hints = [Hint::Exact, Hint::None, Hint::TooSmall, Hint::TooLarge, Hint::Max, Hint::QuarterMax, Hint::Pow62];
    // values: zero, top digit with zero / non-zero high half, interior zero halves
    let mut vals: Vec<Vec<u64>> = vec![vec![], vec![1], vec![u32::MAX as u64], vec![1 << 32], vec![u64::MAX], vec![0, 1], vec![1, 1], vec![0, 1 << 32], vec![7, 0xdeadbeef],
                                       vec![0, 0, 1], vec![1 << 32, 0, 5], vec![u64::MAX, u32::MAX as u64, 1 << 40, 3]];
    for len in 1..=(if r.thorough { 9 } else { 5 }) {
        for _ in 0..(if r.thorough { 6 } else { 2 }) {
            let mut d = digits_p(&mut rng, len, &[Pat::Random, Pat::Sparse, Pat::Landmark, Pat::OneDigit]);
            if rng.chance(1, 2) {
                // zero upper halves in interior digits
                for x in d.iter_mut() {
                    if rng.chance(1, 2) {
                        *x &= 0xffff_ffff;
                    }
                }
                if d[len - 1] == 0 {
                    d[len - 1] = 1;
                }
            }
            vals.push(d);
        }
    }
    for (k, d) in vals.iter().enumerate() {
        if !r.case(&format!("value {}", k)) {
            continue;
        }
        load_u(r, 0, d);
        ser_u(r);
        for s in [Sign::Plus, Sign::Minus] {
            load_i_from_u(r, 0, s, 0);
            ser_i(r);
            roundtrip(r);
        }
        // deserialize the canonical words plus trailing zeros, every hint mode, every sign byte
        let ws = u32_words(d);
        let canon: Vec<u32> = r.g.u[0].to_u32_digits();
        for extra in 0..=3usize {
            let mut w = canon.clone();
            w.extend(std::iter::repeat(0).take(extra));
            let h = hints[(k + extra) % 4];
            de_u(r, &w, h);
            for sign in [-1i8, 0, 1] {
                de_i(r, sign, &w, hints[(k + extra + (sign + 1) as usize) % 4]);
            }
        }
        let _ = ws;
    }
    if r.case("input corners") {
        for h in hints {
            de_u(r, &[], h);
            de_u(r, &[0], h);
            de_u(r, &[0, 0, 0], h);
            de_u(r, &[5], h);
            de_u(r, &[0, 0, 7], h);
            de_u(r, &[1, 2, 3, 4, 5], h);
            for sign in [-1i8, 0, 1, 2, -2, 127, -128] {
                de_i(r, sign, &[], h);
                de_i(r, sign, &[0, 0], h);
                de_i(r, sign, &[5], h);
                de_i(r, sign, &[0, 0, 9, 0], h);
            }
        }
    }
}
