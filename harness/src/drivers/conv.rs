//! C08 driver: primitive integer and float conversions in both directions.

use crate::gen::*;
use crate::rec::*;
use num_bigint::{BigInt, BigUint, Sign, ToBigInt, ToBigUint};
use num_traits::{FromPrimitive, ToPrimitive};
use std::convert::TryFrom;

fn opt_sc<T: ToSc>(v: Option<T>) -> Ret {
    match v {
        Some(x) => Ret::none().some(true).z(&[x.sc()]),
        None => Ret::none().some(false).z(&[]),
    }
}

/// every integer target from u0 and i0
pub fn to_prims(r: &mut Rec) {
    macro_rules! tp {
        ($t:ident, $m:ident) => {
            let ex = format!("\"t\":\"{}\"", stringify!($t));
            r.q_u("to_prim", concat!("to_", stringify!($t)), &ex, 0, |a| opt_sc(a.$m()));
            r.q_i("to_prim", concat!("to_", stringify!($t)), &ex, 0, |a| opt_sc(a.$m()));
            r.q_u("to_prim", concat!("try_from_ref_", stringify!($t)), &ex, 0, |a| opt_sc(<$t>::try_from(a).ok()));
            r.q_i("to_prim", concat!("try_from_ref_", stringify!($t)), &ex, 0, |a| opt_sc(<$t>::try_from(a).ok()));
            // by value: the error must carry the original value back
            r.op("to_prim_val", concat!("try_from_val_", stringify!($t)), &[u(0)], &[u(2)], &format!("\"ty\":\"U\",{}", ex), |g| {
                match <$t>::try_from(g.u[0].clone()) {
                    Ok(x) => { g.u[2] = BigUint::default(); Ret::none().some(true).z(&[x.sc()]) }
                    Err(e) => { g.u[2] = e.into_original(); Ret::none().some(false).z(&[]) }
                }
            });
            r.op("to_prim_val", concat!("try_from_val_", stringify!($t)), &[i(0)], &[i(2)], &format!("\"ty\":\"I\",{}", ex), |g| {
                match <$t>::try_from(g.i[0].clone()) {
                    Ok(x) => { g.i[2] = BigInt::default(); Ret::none().some(true).z(&[x.sc()]) }
                    Err(e) => { g.i[2] = e.into_original(); Ret::none().some(false).z(&[]) }
                }
            });
        };
    }
    tp!(u8, to_u8);
    tp!(u16, to_u16);
    tp!(u32, to_u32);
    tp!(u64, to_u64);
    tp!(u128, to_u128);
    tp!(usize, to_usize);
    tp!(i8, to_i8);
    tp!(i16, to_i16);
    tp!(i32, to_i32);
    tp!(i64, to_i64);
    tp!(i128, to_i128);
    tp!(isize, to_isize);
    // big <-> big
    r.op("to_biguint", "method", &[i(0)], &[u(2)], "\"ty\":\"I\"", |g| {
        let v = g.i[0].to_biguint();
        let some = v.is_some();
        g.u[2] = v.unwrap_or_default();
        Ret::none().some(some)
    });
    r.op("to_biguint", "trait", &[i(0)], &[u(2)], "\"ty\":\"I\"", |g| {
        let v = ToBigUint::to_biguint(&g.i[0]);
        let some = v.is_some();
        g.u[2] = v.unwrap_or_default();
        Ret::none().some(some)
    });
    r.op("to_bigint", "trait", &[u(0)], &[i(2)], "\"ty\":\"U\"", |g| {
        let v = ToBigInt::to_bigint(&g.u[0]);
        let some = v.is_some();
        g.i[2] = v.unwrap_or_default();
        Ret::none().some(some)
    });
    r.op("to_biguint", "try_from_ref", &[i(0)], &[u(2)], "\"ty\":\"I\"", |g| {
        let v = BigUint::try_from(&g.i[0]).ok();
        let some = v.is_some();
        g.u[2] = v.unwrap_or_default();
        Ret::none().some(some)
    });
    r.op("to_biguint_val", "try_from_val", &[i(0)], &[u(2), i(2)], "\"ty\":\"I\"", |g| {
        match BigUint::try_from(g.i[0].clone()) {
            Ok(x) => { g.u[2] = x; g.i[2] = BigInt::default(); Ret::none().some(true) }
            Err(e) => { g.u[2] = BigUint::default(); g.i[2] = e.into_original(); Ret::none().some(false) }
        }
    });
    r.op("to_bigint", "method", &[u(0)], &[i(2)], "\"ty\":\"U\"", |g| {
        let v = g.u[0].to_bigint();
        let some = v.is_some();
        g.i[2] = v.unwrap_or_default();
        Ret::none().some(some)
    });
    r.op("to_bigint", "from_val", &[u(0)], &[i(2)], "\"ty\":\"U\"", |g| {
        g.i[2] = BigInt::from(g.u[0].clone());
        Ret::none().some(true)
    });
    r.op("to_bigint", "self_method", &[i(0)], &[i(2)], "\"ty\":\"I\"", |g| {
        let v = g.i[0].to_bigint();
        let some = v.is_some();
        g.i[2] = v.unwrap_or_default();
        Ret::none().some(some)
    });
    r.op("to_biguint", "self_method", &[u(0)], &[u(2)], "\"ty\":\"U\"", |g| {
        let v = g.u[0].to_biguint();
        let some = v.is_some();
        g.u[2] = v.unwrap_or_default();
        Ret::none().some(some)
    });
}

pub fn to_floats(r: &mut Rec) {
    r.q_u("to_f64", "method", "", 0, |a| { let f = a.to_f64(); Ret::none().some(f.is_some()).bytes("fb", &f.unwrap_or(0.0).to_bits().to_le_bytes()) });
    r.q_i("to_f64", "method", "", 0, |a| { let f = a.to_f64(); Ret::none().some(f.is_some()).bytes("fb", &f.unwrap_or(0.0).to_bits().to_le_bytes()) });
    r.q_u("to_f32", "method", "", 0, |a| { let f = a.to_f32(); Ret::none().some(f.is_some()).bytes("fb", &f.unwrap_or(0.0).to_bits().to_le_bytes()) });
    r.q_i("to_f32", "method", "", 0, |a| { let f = a.to_f32(); Ret::none().some(f.is_some()).bytes("fb", &f.unwrap_or(0.0).to_bits().to_le_bytes()) });
}

/// primitive integer x of every type that can hold it -> big (all constructor forms)
pub fn from_int(r: &mut Rec, x: i128, also_u128: Option<u128>) {
    macro_rules! fi {
        ($t:ident, $fm:ident) => {
            if let Ok(v) = <$t>::try_from(x) {
                let ex = format!("\"sc\":{}", sc_list(&[v.sc()]));
                r.op("from_prim", concat!("U_from_primitive_", stringify!($t)), &[], &[u(2)], &format!("\"ty\":\"U\",{}", ex), |g| {
                    let b = BigUint::$fm(v);
                    let some = b.is_some();
                    g.u[2] = b.unwrap_or_default();
                    Ret::none().some(some)
                });
                r.op("from_prim", concat!("U_try_from_", stringify!($t)), &[], &[u(2)], &format!("\"ty\":\"U\",{}", ex), |g| {
                    let b = BigUint::try_from(v).ok();
                    let some = b.is_some();
                    g.u[2] = b.unwrap_or_default();
                    Ret::none().some(some)
                });
                r.op("from_prim", concat!("U_to_biguint_", stringify!($t)), &[], &[u(2)], &format!("\"ty\":\"U\",{}", ex), |g| {
                    let b = v.to_biguint();
                    let some = b.is_some();
                    g.u[2] = b.unwrap_or_default();
                    Ret::none().some(some)
                });
                r.op("from_prim", concat!("I_from_", stringify!($t)), &[], &[i(2)], &format!("\"ty\":\"I\",{}", ex), |g| {
                    g.i[2] = BigInt::from(v);
                    Ret::none().some(true)
                });
                r.op("from_prim", concat!("I_from_primitive_", stringify!($t)), &[], &[i(2)], &format!("\"ty\":\"I\",{}", ex), |g| {
                    let b = BigInt::$fm(v);
                    let some = b.is_some();
                    g.i[2] = b.unwrap_or_default();
                    Ret::none().some(some)
                });
                r.op("from_prim", concat!("I_to_bigint_", stringify!($t)), &[], &[i(2)], &format!("\"ty\":\"I\",{}", ex), |g| {
                    let b = v.to_bigint();
                    let some = b.is_some();
                    g.i[2] = b.unwrap_or_default();
                    Ret::none().some(some)
                });
            }
        };
    }
    macro_rules! fu {
        ($t:ident) => {
            if let Ok(v) = <$t>::try_from(x) {
                let ex = format!("\"sc\":{}", sc_list(&[v.sc()]));
                r.op("from_prim", concat!("U_from_", stringify!($t)), &[], &[u(2)], &format!("\"ty\":\"U\",{}", ex), |g| {
                    g.u[2] = BigUint::from(v);
                    Ret::none().some(true)
                });
            }
        };
    }
    fi!(u8, from_u8);
    fi!(u16, from_u16);
    fi!(u32, from_u32);
    fi!(u64, from_u64);
    fi!(u128, from_u128);
    fi!(usize, from_usize);
    fi!(i8, from_i8);
    fi!(i16, from_i16);
    fi!(i32, from_i32);
    fi!(i64, from_i64);
    fi!(i128, from_i128);
    fi!(isize, from_isize);
    fu!(u8);
    fu!(u16);
    fu!(u32);
    fu!(u64);
    fu!(u128);
    fu!(usize);
    if x == 0 || x == 1 {
        let b = x == 1;
        let ex = format!("\"sc\":{}", sc_list(&[(x as u8).sc()]));
        r.op("from_prim", "U_from_bool", &[], &[u(2)], &format!("\"ty\":\"U\",{}", ex), |g| {
            g.u[2] = BigUint::from(b);
            Ret::none().some(true)
        });
        r.op("from_prim", "I_from_bool", &[], &[i(2)], &format!("\"ty\":\"I\",{}", ex), |g| {
            g.i[2] = BigInt::from(b);
            Ret::none().some(true)
        });
    }
    if let Some(v) = also_u128 {
        let ex = format!("\"sc\":{}", sc_list(&[v.sc()]));
        r.op("from_prim", "U_from_u128", &[], &[u(2)], &format!("\"ty\":\"U\",{}", ex), |g| {
            g.u[2] = BigUint::from(v);
            Ret::none().some(true)
        });
        r.op("from_prim", "I_from_u128", &[], &[i(2)], &format!("\"ty\":\"I\",{}", ex), |g| {
            g.i[2] = BigInt::from(v);
            Ret::none().some(true)
        });
        r.op("from_prim", "U_from_primitive_u128", &[], &[u(2)], &format!("\"ty\":\"U\",{}", ex), |g| {
            let b = BigUint::from_u128(v);
            let some = b.is_some();
            g.u[2] = b.unwrap_or_default();
            Ret::none().some(some)
        });
    }
}

pub fn from_f64_all(r: &mut Rec, f: f64) {
    let ex = format!("\"fb\":{},\"w\":8", bytes_json(&f.to_bits().to_le_bytes()));
    r.op("from_float", "U_from_f64", &[], &[u(2)], &format!("\"ty\":\"U\",{}", ex), |g| {
        let b = BigUint::from_f64(f);
        let some = b.is_some();
        g.u[2] = b.unwrap_or_default();
        Ret::none().some(some)
    });
    r.op("from_float", "I_from_f64", &[], &[i(2)], &format!("\"ty\":\"I\",{}", ex), |g| {
        let b = BigInt::from_f64(f);
        let some = b.is_some();
        g.i[2] = b.unwrap_or_default();
        Ret::none().some(some)
    });
    r.op("from_float", "U_to_biguint_f64", &[], &[u(2)], &format!("\"ty\":\"U\",{}", ex), |g| {
        let b = f.to_biguint();
        let some = b.is_some();
        g.u[2] = b.unwrap_or_default();
        Ret::none().some(some)
    });
    r.op("from_float", "I_to_bigint_f64", &[], &[i(2)], &format!("\"ty\":\"I\",{}", ex), |g| {
        let b = f.to_bigint();
        let some = b.is_some();
        g.i[2] = b.unwrap_or_default();
        Ret::none().some(some)
    });
}
pub fn from_f32_all(r: &mut Rec, f: f32) {
    let ex = format!("\"fb\":{},\"w\":4", bytes_json(&f.to_bits().to_le_bytes()));
    r.op("from_float", "U_from_f32", &[], &[u(2)], &format!("\"ty\":\"U\",{}", ex), |g| {
        let b = BigUint::from_f32(f);
        let some = b.is_some();
        g.u[2] = b.unwrap_or_default();
        Ret::none().some(some)
    });
    r.op("from_float", "I_from_f32", &[], &[i(2)], &format!("\"ty\":\"I\",{}", ex), |g| {
        let b = BigInt::from_f32(f);
        let some = b.is_some();
        g.i[2] = b.unwrap_or_default();
        Ret::none().some(some)
    });
    r.op("from_float", "U_to_biguint_f32", &[], &[u(2)], &format!("\"ty\":\"U\",{}", ex), |g| {
        let b = f.to_biguint();
        let some = b.is_some();
        g.u[2] = b.unwrap_or_default();
        Ret::none().some(some)
    });
    r.op("from_float", "I_to_bigint_f32", &[], &[i(2)], &format!("\"ty\":\"I\",{}", ex), |g| {
        let b = f.to_bigint();
        let some = b.is_some();
        g.i[2] = b.unwrap_or_default();
        Ret::none().some(some)
    });
}

fn big_case(r: &mut Rec, label: &str, v: &BigUint, ints: bool) {
    if !r.case(label) {
        return;
    }
    let d = v.verif_raw().to_vec();
    for s in [Sign::Plus, Sign::Minus] {
        load_u(r, 0, &d);
        load_i_from_u(r, 0, s, 0);
        if ints {
            to_prims(r);
        }
        to_floats(r);
    }
}

pub fn run(r: &mut Rec) {
    let mut rng = Rng(r.seed ^ 0xC08);
    let one = BigUint::from(1u8);
    // values within +-2 of every type's MIN/MAX and of 2^64 / 2^128
    for bits in [7u32, 8, 15, 16, 31, 32, 63, 64, 127, 128] {
        for delta in -2i32..=2 {
            let p = &one << bits;
            let v: BigUint = if delta < 0 { &p - (-delta) as u32 } else { &p + delta as u32 };
            big_case(r, &format!("2^{}{:+}", bits, delta), &v, true);
        }
    }
    for v in [0u32, 1, 2, 100] {
        big_case(r, &format!("small {}", v), &BigUint::from(v), true);
    }
    for len in [2usize, 3, 5] {
        let d = digits(&mut rng, len, Pat::Random);
        big_case(r, &format!("random {}", len), &BigUint::from_bytes_le(&le_bytes(&d)), true);
    }
    // float ties: significand pattern M of p or p+1 bits (+ optional half bit), shifted up, with a deciding tail far below
    for (p, name) in [(53u32, "f64"), (24u32, "f32")] {
        let shifts: Vec<u32> = if r.thorough { (1..=300).collect() } else { vec![1, 2, 3, 10, 11, 12, 40, 63, 64, 65, 75, 100, 127, 128, 129, 191, 192, 193, 250, 300] };
        for &sh in &shifts {
            for pat in 0..6 {
                // kept significand: even / odd / all ones (rounds up to the next power of two)
                let kept: BigUint = match pat % 3 {
                    0 => (&one << (p - 1)) + (rng.next() >> (65 - p.min(60)) << 1),
                    1 => ((&one << (p - 1)) + (rng.next() >> (65 - p.min(60)) << 1)) | &one,
                    _ => (&one << p) - 1u32,
                };
                let half_set = pat < 3;
                let base: BigUint = ((kept << 1) + if half_set { 1u32 } else { 0u32 }) << sh;
                // tails: exact tie / deciding bit at the very bottom / all ones below / one bit somewhere
                let tails: Vec<BigUint> = vec![
                    BigUint::default(),
                    one.clone(),
                    (&one << sh) - 1u32,
                    &one << rng.below(sh as u64) as u32,
                    BigUint::from(2u8) % (&one << sh),
                ];
                if !r.case(&format!("{} tie sh {} pat {}", name, sh, pat)) {
                    continue;
                }
                for t in &tails {
                    let v = &base + t;
                    let d = v.verif_raw().to_vec();
                    load_u(r, 0, &d);
                    load_i_from_u(r, 0, if pat % 2 == 0 { Sign::Minus } else { Sign::Plus }, 0);
                    to_floats(r);
                }
            }
        }
    }
    // magnitudes around 2^128 (f32 overflow) and 2^1024 (f64 overflow)
    for (top, p) in [(128u32, 24u32), (1024, 53)] {
        let ulp_half = &one << (top - p - 1);
        let max = (&one << top) - (&one << (top - p));
        for (k, v) in [max.clone(), &max + &ulp_half - 1u32, &max + &ulp_half, &max + &ulp_half + 1u32, &one << top, (&one << top) - 1u32, (&one << top) + 1u32,
                       &one << (top + 1), &one << (top - 1), &max - 1u32, &max + 1u32].iter().enumerate() {
            big_case(r, &format!("overflow 2^{} #{}", top, k), v, false);
        }
    }
    // primitive integers -> big
    if r.case("from ints") {
        let mut xs: Vec<i128> = vec![0, 1, -1, 2, -2];
        for b in [7u32, 8, 15, 16, 31, 32, 63, 64, 126] {
            let p = 1i128 << b;
            xs.extend_from_slice(&[p - 1, p, -p, -p + 1, -p - 1]);
            if b < 126 {
                xs.push(p + 1);
            }
        }
        xs.push(i128::MIN);
        xs.push(i128::MIN + 1);
        xs.push(i128::MAX - 1);
        xs.push(i128::MAX);
        for x in xs {
            from_int(r, x, None);
        }
        for v in [u128::MAX, u128::MAX - 1, 1u128 << 127, (1u128 << 127) + 1, 1u128 << 64, (1u128 << 96) + 5] {
            from_int(r, 0, Some(v));
        }
    }
    // values whose low N bits look like a primitive's MIN / MAX / 0 under non-zero higher bits (a range test that looks
    // at trailing zeros, the low digit or the bit count alone accepts them)
    for n in [8u32, 16, 32, 64, 128] {
        if !r.case(&format!("low pattern {}", n)) {
            continue;
        }
        let one = BigUint::from(1u32);
        let lows = [BigUint::from(0u32), one.clone(), &one << (n - 1), (&one << (n - 1)) - 1u32, (&one << n) - 1u32, (&one << (n - 1)) + 1u32];
        let his = [one.clone(), BigUint::from(2u32), BigUint::from(3u32), BigUint::from(u64::MAX), &one << 100u32, (&one << 936u32) + 1u32];
        for hi in &his {
            for lo in &lows {
                let v = (hi << n) | lo;
                let d = v.verif_raw().to_vec();
                load_u(r, 0, &d);
                for s in [Sign::Plus, Sign::Minus] {
                    load_i_from_u(r, 0, s, 0);
                    to_prims(r);
                }
            }
        }
    }
    // floats -> big
    if r.case("from floats") {
        let mut rng = r.case_rng();
        let mut fs: Vec<f64> = vec![0.0, -0.0, 0.5, -0.5, 0.9999999999999999, -0.9999999999999999, 1.0, -1.0, 1.5, -1.5, 2.5, 1e10, -1e10, 1e15 + 0.5, 4503599627370496.5,
                                    9007199254740992.0, 9007199254740993.0, 1.8446744073709552e19, 3.402823669209385e38, 1e100, -1e100, 1e300, f64::MAX, f64::MIN, f64::MIN_POSITIVE,
                                    -f64::MIN_POSITIVE, 5e-324, -5e-324, f64::NAN, f64::INFINITY, f64::NEG_INFINITY, f64::EPSILON, 255.99, 256.0, 65535.7, 4294967295.9, 4294967296.0];
        for _ in 0..(if r.thorough { 400 } else { 80 }) {
            let bits = rng.next();
            fs.push(f64::from_bits(bits));
            // moderate exponents
            fs.push(f64::from_bits((bits & 0x800f_ffff_ffff_ffff) | ((1000 + rng.below(140)) << 52)));
        }
        // every power of two up to 2^130 and the ends of the range, with the neighbouring floats on both sides, both signs:
        // a fast path keyed on a primitive's range is wrong exactly at such an edge
        let mut ks: Vec<i32> = (0..=130).collect();
        ks.extend([255, 256, 511, 512, 1000, 1022, 1023]);
        for k in ks {
            let p = f64::from_bits(((1023 + k) as u64) << 52);
            for f in [p, f64::from_bits(p.to_bits() - 1), f64::from_bits(p.to_bits() + 1)] {
                fs.push(f);
                fs.push(-f);
            }
        }
        for f in fs {
            from_f64_all(r, f);
        }
        let mut gs: Vec<f32> = vec![0.0, -0.0, 0.5, -0.5, 0.99999994, 1.0, -1.0, 1.5, 16777216.0, 16777217.0, 3.4028235e38, f32::MAX, f32::MIN, f32::MIN_POSITIVE, 1e-45, f32::NAN,
                                    f32::INFINITY, f32::NEG_INFINITY, 8388607.5, -8388607.5, 2147483648.0, 1e20];
        for _ in 0..(if r.thorough { 200 } else { 40 }) {
            gs.push(f32::from_bits(rng.next() as u32));
            gs.push(f32::from_bits(((rng.next() as u32) & 0x807f_ffff) | ((120 + rng.below(40) as u32) << 23)));
        }
        for k in 0..=127u32 {
            let p = f32::from_bits((127 + k) << 23);
            for f in [p, f32::from_bits(p.to_bits() - 1), f32::from_bits(p.to_bits() + 1)] {
                gs.push(f);
                gs.push(-f);
            }
        }
        for f in gs {
            from_f32_all(r, f);
        }
    }
}
