//! C03 driver: every division convention, both duplicated pre-check paths, Knuth-D hard cases.

use crate::gen::*;
use crate::hint;
use crate::rec::*;
use num_bigint::{BigInt, BigUint, Sign};
use num_integer::Integer;
use num_traits::{CheckedDiv, CheckedEuclid, Euclid};

/// hint quotient for a remainder-only event: {"s":..,"d":[..]} (untrusted; re-checked by the spec)
pub fn hint_q(conv: &str, sa: i32, a: &[u64], sb: i32, b: &[u64]) -> String {
    let na = hint::from_u64s(a);
    let nb = hint::from_u64s(b);
    if nb.is_empty() {
        return "{\"s\":0,\"d\":[]}".into();
    }
    let (q, rm) = hint::divmod(&na, &nb);
    let one = vec![1u32];
    let exact = rm.is_empty();
    let sq = sa * sb; // sign of the truncated quotient (if non-zero)
    let (s, mag) = match conv {
        "trunc" => (sq, q),
        "floor" => {
            if sq < 0 && !exact {
                (-1, hint::add(&q, &one))
            } else {
                (sq, q)
            }
        }
        "euclid" => {
            // r >= 0: for a >= 0 truncation is right; for a < 0 and inexact move one step away from zero
            if sa < 0 && !exact {
                (sq, hint::add(&q, &one))
            } else {
                (sq, q)
            }
        }
        _ => {
            // ceil
            if sq > 0 && !exact {
                (1, hint::add(&q, &one))
            } else {
                (sq, q)
            }
        }
    };
    let s = if mag.is_empty() { 0 } else { s };
    format!("{{\"s\":{},\"d\":{}}}", s, bytes_json(&hint::to_bytes(&mag)))
}

fn sgn_u(x: &BigUint) -> i32 {
    if x.verif_raw().is_empty() {
        0
    } else {
        1
    }
}
fn sgn_i(x: &BigInt) -> i32 {
    match x.sign() {
        Sign::Minus => -1,
        Sign::NoSign => 0,
        Sign::Plus => 1,
    }
}

fn part(p: &str) -> String {
    format!("\"part\":\"{}\"", p)
}
fn part_r_u(r: &Rec, conv: &str) -> String {
    let (a, b) = (&r.g.u[0], &r.g.u[1]);
    format!("\"part\":\"r\",\"hint\":[{}]", hint_q(conv, sgn_u(a), a.verif_raw(), sgn_u(b), b.verif_raw()))
}
fn part_r_i(r: &Rec, conv: &str) -> String {
    let (a, b) = (&r.g.i[0], &r.g.i[1]);
    format!("\"part\":\"r\",\"hint\":[{}]", hint_q(conv, sgn_i(a), a.magnitude().verif_raw(), sgn_i(b), b.magnitude().verif_raw()))
}

/// form k of the BigUint division API on (u0, u1) -> u2[, u3]
pub fn u_form(r: &mut Rec, k: u64) {
    match k % 26 {
        0 => r.x(part("qr")).uu2("div_rem", "integer_method", 0, 1, 2, 3, |a, b| a.div_rem(b)),
        1 => r.x(part("q")).uu("div", "val_val", 0, 1, 2, |a, b| a.roomy() / b.roomy()),
        2 => r.x(part("q")).uu("div", "ref_ref", 0, 1, 2, |a, b| a / b),
        3 => r.x(part("q")).uu("div", "val_ref", 0, 1, 2, |a, b| a.roomy() / b),
        4 => r.x(part("q")).uu("div", "ref_val", 0, 1, 2, |a, b| a / b.roomy()),
        5 => {
            let p = part_r_u(r, "trunc");
            r.x(p).uu("rem", "val_val", 0, 1, 2, |a, b| a.roomy() % b.roomy())
        }
        6 => {
            let p = part_r_u(r, "trunc");
            r.x(p).uu("rem", "ref_ref", 0, 1, 2, |a, b| a % b)
        }
        7 => {
            let p = part_r_u(r, "trunc");
            r.x(p).uu("rem", "val_ref", 0, 1, 2, |a, b| a.roomy() % b)
        }
        8 => {
            let p = part_r_u(r, "trunc");
            r.x(p).uu("rem", "ref_val", 0, 1, 2, |a, b| a % b.roomy())
        }
        9 => {
            r.clone_u(0, 2);
            r.x(part("q")).u_assign("div", "assign_ref", 2, 1, |d, s| *d /= s)
        }
        10 => {
            r.clone_u(0, 2);
            r.x(part("q")).u_assign("div", "assign_val", 2, 1, |d, s| *d /= s.roomy())
        }
        11 => {
            r.clone_u(0, 2);
            let p = part_r_u(r, "trunc");
            r.x(p).u_assign("rem", "assign_ref", 2, 1, |d, s| *d %= s)
        }
        12 => {
            r.clone_u(0, 2);
            let p = part_r_u(r, "trunc");
            r.x(p).u_assign("rem", "assign_val", 2, 1, |d, s| *d %= s.roomy())
        }
        13 => r.x(part("q")).uu("div_floor", "integer_method", 0, 1, 2, |a, b| a.div_floor(b)),
        14 => {
            let p = part_r_u(r, "floor");
            r.x(p).uu("mod_floor", "integer_method", 0, 1, 2, |a, b| a.mod_floor(b))
        }
        15 => r.x(part("qr")).uu2("div_mod_floor", "integer_method", 0, 1, 2, 3, |a, b| a.div_mod_floor(b)),
        16 => r.x(part("q")).uu("div_ceil", "integer_method", 0, 1, 2, |a, b| Integer::div_ceil(a, b)),
        17 => r.x(part("q")).uu("div_euclid", "euclid_method", 0, 1, 2, |a, b| a.div_euclid(b)),
        18 => {
            let p = part_r_u(r, "euclid");
            r.x(p).uu("rem_euclid", "euclid_method", 0, 1, 2, |a, b| a.rem_euclid(b))
        }
        19 => r.x(part("qr")).uu2("div_rem_euclid", "euclid_method", 0, 1, 2, 3, |a, b| a.div_rem_euclid(b)),
        20 => {
            r.x(part("q")).uu_opt("checked_div", "trait", 0, 1, 2, |a, b| num_traits::CheckedDiv::checked_div(a, b));
            r.x(part("q")).uu_opt("checked_div", "method", 0, 1, 2, |a, b| a.checked_div(b))
        }
        21 => r.x(part("q")).uu_opt("checked_div_euclid", "method", 0, 1, 2, |a, b| a.checked_div_euclid(b)),
        22 => {
            let p = part_r_u(r, "euclid");
            r.x(p).uu_opt("checked_rem_euclid", "method", 0, 1, 2, |a, b| a.checked_rem_euclid(b))
        }
        23 => r.x(part("qr")).uu2_opt("checked_div_rem_euclid", "method", 0, 1, 2, 3, |a, b| a.checked_div_rem_euclid(b)),
        24 => r.x(part_r_u(r, "trunc")).op("is_multiple_of", "integer_method", &[u(0), u(1)], &[], "\"ty\":\"U\"", |g| {
            Ret::none().b(g.u[0].is_multiple_of(&g.u[1]))
        }),
        _ => r.x(part("qr")).uu2("div_rem", "ops_pair", 0, 1, 2, 3, |a, b| (a.roomy() / b.roomy(), a % b)),
    };
}
pub const U_FORMS: u64 = 26;

pub fn i_form(r: &mut Rec, k: u64) {
    match k % 26 {
        0 => r.x(part("qr")).ii2("div_rem", "integer_method", 0, 1, 2, 3, |a, b| a.div_rem(b)),
        1 => r.x(part("q")).ii("div", "val_val", 0, 1, 2, |a, b| a.roomy() / b.roomy()),
        2 => r.x(part("q")).ii("div", "ref_ref", 0, 1, 2, |a, b| a / b),
        3 => r.x(part("q")).ii("div", "val_ref", 0, 1, 2, |a, b| a.roomy() / b),
        4 => r.x(part("q")).ii("div", "ref_val", 0, 1, 2, |a, b| a / b.roomy()),
        5 => {
            let p = part_r_i(r, "trunc");
            r.x(p).ii("rem", "val_val", 0, 1, 2, |a, b| a.roomy() % b.roomy())
        }
        6 => {
            let p = part_r_i(r, "trunc");
            r.x(p).ii("rem", "ref_ref", 0, 1, 2, |a, b| a % b)
        }
        7 => {
            let p = part_r_i(r, "trunc");
            r.x(p).ii("rem", "val_ref", 0, 1, 2, |a, b| a.roomy() % b)
        }
        8 => {
            let p = part_r_i(r, "trunc");
            r.x(p).ii("rem", "ref_val", 0, 1, 2, |a, b| a % b.roomy())
        }
        9 => {
            r.clone_i(0, 2);
            r.x(part("q")).i_assign("div", "assign_ref", 2, 1, |d, s| *d /= s)
        }
        10 => {
            r.clone_i(0, 2);
            r.x(part("q")).i_assign("div", "assign_val", 2, 1, |d, s| *d /= s.roomy())
        }
        11 => {
            r.clone_i(0, 2);
            let p = part_r_i(r, "trunc");
            r.x(p).i_assign("rem", "assign_ref", 2, 1, |d, s| *d %= s)
        }
        12 => {
            r.clone_i(0, 2);
            let p = part_r_i(r, "trunc");
            r.x(p).i_assign("rem", "assign_val", 2, 1, |d, s| *d %= s.roomy())
        }
        13 => r.x(part("q")).ii("div_floor", "integer_method", 0, 1, 2, |a, b| a.div_floor(b)),
        14 => {
            let p = part_r_i(r, "floor");
            r.x(p).ii("mod_floor", "integer_method", 0, 1, 2, |a, b| a.mod_floor(b))
        }
        15 => r.x(part("qr")).ii2("div_mod_floor", "integer_method", 0, 1, 2, 3, |a, b| a.div_mod_floor(b)),
        16 => r.x(part("q")).ii("div_ceil", "integer_method", 0, 1, 2, |a, b| Integer::div_ceil(a, b)),
        17 => r.x(part("q")).ii("div_euclid", "euclid_method", 0, 1, 2, |a, b| a.div_euclid(b)),
        18 => {
            let p = part_r_i(r, "euclid");
            r.x(p).ii("rem_euclid", "euclid_method", 0, 1, 2, |a, b| a.rem_euclid(b))
        }
        19 => r.x(part("qr")).ii2("div_rem_euclid", "euclid_method", 0, 1, 2, 3, |a, b| a.div_rem_euclid(b)),
        20 => {
            r.x(part("q")).ii_opt("checked_div", "trait", 0, 1, 2, |a, b| num_traits::CheckedDiv::checked_div(a, b));
            r.x(part("q")).ii_opt("checked_div", "method", 0, 1, 2, |a, b| a.checked_div(b))
        }
        21 => r.x(part("q")).ii_opt("checked_div_euclid", "method", 0, 1, 2, |a, b| a.checked_div_euclid(b)),
        22 => {
            let p = part_r_i(r, "euclid");
            r.x(p).ii_opt("checked_rem_euclid", "method", 0, 1, 2, |a, b| a.checked_rem_euclid(b))
        }
        23 => r.x(part("qr")).ii2_opt("checked_div_rem_euclid", "method", 0, 1, 2, 3, |a, b| a.checked_div_rem_euclid(b)),
        24 => r.x(part_r_i(r, "trunc")).op("is_multiple_of", "integer_method", &[i(0), i(1)], &[], "\"ty\":\"I\"", |g| {
            Ret::none().b(g.i[0].is_multiple_of(&g.i[1]))
        }),
        _ => r.x(part("qr")).ii2("div_rem", "ops_pair", 0, 1, 2, 3, |a, b| (a.roomy() / b.roomy(), a % b)),
    };
}

fn scalar_forms(r: &mut Rec, rng: &mut Rng) {
    // scalar divisor / scalar dividend forms on u0 (leaf code: div_rem_digit, rem_digit, digit-count switches)
    let s32: u32 = *rng.pick(&[1u32, 2, 3, 10, u32::MAX, 0x8000_0000, 0x10000, 7]);
    let s64: u64 = *rng.pick(&[1u64, 3, 1 << 32, (1 << 32) + 1, 1 << 63, u64::MAX, u64::MAX - 1, 10_000_000_000_000_000_000]);
    let s128: u128 = *rng.pick(&[1u128, 1 << 64, (1 << 64) + 1, u128::MAX, 1 << 127, u64::MAX as u128, 3 << 64, 10u128.pow(38)]);
    let hq = |g: &Rec, m: u128| {
        let a = &g.g.u[0];
        hint_q("trunc", sgn_u(a), a.verif_raw(), 1, &[m as u64, (m >> 64) as u64])
    };
    let hq_rev = |g: &Rec, m: u128| {
        let a = &g.g.u[0];
        hint_q("trunc", if m == 0 { 0 } else { 1 }, &[m as u64, (m >> 64) as u64], sgn_u(a), a.verif_raw())
    };
    macro_rules! q_rc {
        ($form:expr, $s:expr, |$g:ident| $e:expr) => {
            r.op("div", $form, &[u(0)], &[u(2)], &format!("{},{}", ex_sc("U", &[$s.sc()], "rc"), part("q")), |$g| {
                $g.u[2] = $e;
                Ret::none()
            });
        };
    }
    macro_rules! r_rc {
        ($form:expr, $s:expr, |$g:ident| $e:expr) => {
            let h = hq(r, $s as u128);
            r.op("rem", $form, &[u(0)], &[u(2)], &format!("{},\"part\":\"r\",\"hint\":[{}]", ex_sc("U", &[$s.sc()], "rc"), h), |$g| {
                $g.u[2] = $e;
                Ret::none()
            });
        };
    }
    macro_rules! q_cr {
        ($form:expr, $s:expr, |$g:ident| $e:expr) => {
            r.op("div", $form, &[u(0)], &[u(2)], &format!("{},{}", ex_sc("U", &[$s.sc()], "cr"), part("q")), |$g| {
                $g.u[2] = $e;
                Ret::none()
            });
        };
    }
    macro_rules! r_cr {
        ($form:expr, $s:expr, |$g:ident| $e:expr) => {
            let h = hq_rev(r, $s as u128);
            r.op("rem", $form, &[u(0)], &[u(2)], &format!("{},\"part\":\"r\",\"hint\":[{}]", ex_sc("U", &[$s.sc()], "cr"), h), |$g| {
                $g.u[2] = $e;
                Ret::none()
            });
        };
    }
    q_rc!("val_u32", s32, |g| g.u[0].roomy() / s32);
    q_rc!("ref_u64", s64, |g| &g.u[0] / s64);
    q_rc!("val_u128", s128, |g| g.u[0].roomy() / s128);
    r_rc!("ref_u32", s32, |g| &g.u[0] % s32);
    r_rc!("val_u64", s64, |g| g.u[0].roomy() % s64);
    r_rc!("val_u128", s128, |g| g.u[0].roomy() % s128);
    q_cr!("u32_val", s32, |g| s32 / g.u[0].roomy());
    q_cr!("u64_val", s64, |g| s64 / g.u[0].roomy());
    q_cr!("u128_ref", s128, |g| s128 / &g.u[0]);
    r_cr!("u32_ref", s32, |g| s32 % &g.u[0]);
    r_cr!("u64_val", s64, |g| s64 % g.u[0].roomy());
    r_cr!("u128_val", s128, |g| s128 % g.u[0].roomy());
}

const SIGNS: [(Sign, Sign); 4] = [(Sign::Plus, Sign::Plus), (Sign::Plus, Sign::Minus), (Sign::Minus, Sign::Plus), (Sign::Minus, Sign::Minus)];

fn one_case(r: &mut Rec, label: &str, a: &[u64], b: &[u64], nforms: u64) {
    if !r.case(label) {
        return;
    }
    let mut rng = r.case_rng();
    load_u(r, 0, a);
    load_u(r, 1, b);
    // both duplicated implementations: Integer::div_rem (by reference) and by-value operators
    u_form(r, 0);
    u_form(r, 25);
    let f0 = rng.below(U_FORMS);
    for k in 0..nforms {
        u_form(r, f0 + k * 7 + 1);
    }
    let s0 = rng.below(4) as usize;
    let nsign = if nforms >= 8 { 4 } else { 2 };
    for k in 0..nsign {
        let (sa, sb) = SIGNS[(s0 + k) % 4];
        load_i_from_u(r, 0, sa, 0);
        load_i_from_u(r, 1, sb, 1);
        i_form(r, 0);
        let g0 = rng.below(U_FORMS);
        for j in 0..nforms.max(2) {
            i_form(r, g0 + j * 5 + 1);
        }
    }
    if rng.chance(1, 4) {
        scalar_forms(r, &mut rng);
    }
}

fn full_case(r: &mut Rec, label: &str, a: &[u64], b: &[u64]) {
    if !r.case(label) {
        return;
    }
    let mut rng = r.case_rng();
    load_u(r, 0, a);
    load_u(r, 1, b);
    for k in 0..U_FORMS {
        u_form(r, k);
    }
    for (sa, sb) in SIGNS {
        load_i_from_u(r, 0, sa, 0);
        load_i_from_u(r, 1, sb, 1);
        for k in 0..U_FORMS {
            i_form(r, k);
        }
    }
    scalar_forms(r, &mut rng);
}

fn mul_add(q: &[u64], b: &[u64], add: i64) -> Vec<u64> {
    // q*b + add through the hint arithmetic (independent of the library)
    let p = hint::mul(&hint::from_u64s(q), &hint::from_u64s(b));
    let p = if add >= 0 { hint::add(&p, &hint::from_u128(add as u128)) } else if p.is_empty() { p } else { hint::sub(&p, &hint::from_u128((-add) as u128)) };
    let mut out = vec![];
    for c in p.chunks(2) {
        out.push(c[0] as u64 | ((*c.get(1).unwrap_or(&0) as u64) << 32));
    }
    out
}

pub fn run(r: &mut Rec) {
    let mut rng = Rng(r.seed ^ 0xC03);
    // zero divisor and zero dividend: every API
    for la in [0usize, 1, 3] {
        let a = digits(&mut rng, la, Pat::Random);
        full_case(r, &format!("zero divisor {}", la), &a, &[]);
    }
    let b = digits(&mut rng, 2, Pat::Random);
    full_case(r, "zero dividend", &[], &b);
    full_case(r, "small full", &[7], &[2]);
    full_case(r, "full 3/2", &digits(&mut rng, 3, Pat::Random), &digits(&mut rng, 2, Pat::Landmark));
    // landmark-lifted operands: the Knuth D branch kinds (a0 == b0, refinement rounds, add-back)
    let n_land = if r.thorough { 12000 } else { 1500 };
    for k in 0..n_land {
        let lb = 2 + (k % 3) as usize; // 2..4
        let la = lb + (rng.below(4) as usize);
        let mut a: Vec<u64> = (0..la).map(|_| *rng.pick(&LANDMARKS)).collect();
        let mut b: Vec<u64> = (0..lb).map(|_| *rng.pick(&LANDMARKS)).collect();
        if a[la - 1] == 0 {
            a[la - 1] = *rng.pick(&LANDMARKS[1..]);
        }
        if b[lb - 1] == 0 {
            b[lb - 1] = *rng.pick(&LANDMARKS[1..]);
        }
        one_case(r, &format!("landmark {}/{}", la, lb), &a, &b, 1);
    }
    // the running remainder's top two digits equal the divisor's top two digits (divisors of >= 3 digits), with and
    // without a normalisation shift: the wide division must not be reached with hi == divisor
    for lb in 3..=5usize {
        for top in [1u64 << 63, u64::MAX, (1 << 63) + 5, 1, 3 << 20] {
            for rep in 0..(if r.thorough { 6 } else { 2 }) {
                let mut d = digits_p(&mut rng, lb, &[Pat::Random, Pat::Landmark]);
                d[lb - 1] = top;
                let nd = hint::from_u64s(&d);
                let dm1 = hint::sub(&nd, &vec![1u32]);
                for k in 1..=2usize {
                    let mut sh = vec![0u32; 2 * k];
                    sh.push(1);
                    let v1 = hint::mul(&dm1, &sh);                       // (d - 1) * 2^(64k)
                    let v2 = hint::sub(&hint::mul(&nd, &sh), &vec![1u32]); // d * 2^(64k) - 1
                    for v in [v1, v2] {
                        let a: Vec<u64> = v.chunks(2).map(|c| c[0] as u64 | ((*c.get(1).unwrap_or(&0) as u64) << 32)).collect();
                        one_case(r, &format!("top2 equal lb{} k{} rep{}", lb, k, rep), &a, &d, 1);
                    }
                }
            }
        }
    }
    // every normalisation shift of the divisor's top digit
    for sh in 0..64u32 {
        for lb in [2usize, 3, 5] {
            if !r.thorough && lb == 5 && sh % 4 != 0 {
                continue;
            }
            let mut b = digits(&mut rng, lb, Pat::Random);
            b[lb - 1] = (1u64 << (63 - sh)) | (rng.next() & ((1u64 << (63 - sh)) - 1));
            let la = lb + 1 + rng.below(3) as usize;
            let pa = *rng.pick(&[Pat::Random, Pat::Ones, Pat::Landmark]);
            let a = digits(&mut rng, la, pa);
            one_case(r, &format!("shift {} {}/{}", sh, la, lb), &a, &b, 2);
        }
    }
    // structure: a<b, a=b, equal lengths, single-digit divisor, divisor one, long quotient, exact multiples +-1
    let lens: Vec<usize> = if r.thorough { vec![1, 2, 3, 4, 5, 6, 8, 12, 20] } else { vec![1, 2, 3, 5, 6, 20] };
    for &lb in &lens {
        let (p1, p2) = (*rng.pick(&PATS), *rng.pick(&PATS));
        let b = digits(&mut rng, lb, p1);
        let a = digits(&mut rng, lb, p2);
        one_case(r, &format!("equal_len {}", lb), &a, &b, 3);
        one_case(r, &format!("same {}", lb), &b, &b, 3);
        if lb > 1 {
            let small = digits(&mut rng, lb - 1, Pat::Random);
            one_case(r, &format!("less {}", lb), &small, &b, 3);
        }
        for lq in [1usize, 2, 7] {
            let pq = *rng.pick(&[Pat::Random, Pat::Ones, Pat::Pow2]);
            let q = digits(&mut rng, lq, pq);
            for add in [0i64, 1, -1] {
                let a = mul_add(&q, &b, add);
                one_case(r, &format!("multiple {}x{} {:+}", lq, lb, add), &a, &b, 2);
            }
        }
        let a = digits(&mut rng, lb + 17, Pat::Random);
        one_case(r, &format!("long quotient {}", lb), &a, &b, 3);
        one_case(r, &format!("by one {}", lb), &a, &[1], 3);
        one_case(r, &format!("by digit {}", lb), &a, &[*rng.pick(&LANDMARKS[1..])], 4);
        one_case(r, &format!("by 2^32-ish {}", lb), &a, &[*rng.pick(&[1u64 << 32, (1u64 << 32) - 1, (1u64 << 32) + 1, u32::MAX as u64])], 4);
    }
    // random dense
    let n_rand = if r.thorough { 2000 } else { 200 };
    for _ in 0..n_rand {
        let lb = 1 + rng.below(8) as usize;
        let la = rng.below(14) as usize;
        let a = digits(&mut rng, la, Pat::Random);
        let b = digits(&mut rng, lb, Pat::Random);
        one_case(r, &format!("random {}/{}", la, lb), &a, &b, 2);
    }
}
