//! C01 driver: addition and subtraction over length pairs x carry patterns x forms x signs.

use crate::gen::*;
use crate::rec::*;
use num_bigint::{BigInt, BigUint, Sign};
use num_traits::{CheckedAdd, CheckedSub};

fn with_cap(x: &BigUint, extra: usize) -> BigUint {
    let mut c = x.roomy();
    c.verif_reserve(extra);
    c
}
fn with_cap_i(x: &BigInt, extra: usize) -> BigInt {
    let mut c = x.roomy();
    c.verif_reserve(extra);
    c
}

/// all forms on the pair loaded in u0,u1 (and i0,i1 for the four sign combinations)
pub fn forms_u(r: &mut Rec) {
    // addition
    r.uu("add", "ref_ref", 0, 1, 2, |a, b| a + b);
    r.uu("add", "val_ref", 0, 1, 2, |a, b| a.roomy() + b);
    r.uu("add", "val_ref_cap", 0, 1, 2, |a, b| with_cap(a, b.verif_raw().len() + 3) + b);
    r.uu("add", "ref_val", 0, 1, 2, |a, b| a + b.roomy());
    r.uu("add", "val_val", 0, 1, 2, |a, b| a.roomy() + b.roomy());
    r.uu("add", "val_val_capb", 0, 1, 2, |a, b| a.roomy() + with_cap(b, a.verif_raw().len() + 2));
    r.uu("add", "val_val_capa", 0, 1, 2, |a, b| with_cap(a, b.verif_raw().len() + 2) + b.roomy());
    r.clone_u(0, 2);
    r.u_assign("add", "assign_ref", 2, 1, |d, s| *d += s);
    r.clone_u(0, 2);
    r.u_assign("add", "assign_val", 2, 1, |d, s| *d += s.roomy());
    r.clone_u(1, 2);
    r.u_assign("add", "assign_ref_swapped", 2, 0, |d, s| *d += s);
    r.uu_opt("checked_add", "method", 0, 1, 2, |a, b| a.checked_add(b));
    r.uu_opt("checked_add", "trait", 0, 1, 2, |a, b| num_traits::CheckedAdd::checked_add(a, b));
    r.uu_opt("checked_sub", "trait", 0, 1, 2, |a, b| num_traits::CheckedSub::checked_sub(a, b));
    // subtraction (panics when a < b)
    r.uu("sub", "ref_ref", 0, 1, 2, |a, b| a - b);
    r.uu("sub", "val_ref", 0, 1, 2, |a, b| a.roomy() - b);
    r.uu("sub", "ref_val", 0, 1, 2, |a, b| a - b.roomy());
    r.uu("sub", "ref_val_cap", 0, 1, 2, |a, b| a - with_cap(b, a.verif_raw().len() + 2));
    r.uu("sub", "val_val", 0, 1, 2, |a, b| a.roomy() - b.roomy());
    r.clone_u(0, 2);
    r.u_assign("sub", "assign_ref", 2, 1, |d, s| *d -= s);
    r.clone_u(0, 2);
    r.u_assign("sub", "assign_val", 2, 1, |d, s| *d -= s.roomy());
    r.uu_opt("checked_sub", "method", 0, 1, 2, |a, b| a.checked_sub(b));
    // the other direction
    r.uu("sub", "ref_ref", 1, 0, 2, |a, b| a - b);
    r.uu("sub", "ref_val", 1, 0, 2, |a, b| a - b.roomy());
    r.uu("sub", "val_ref", 1, 0, 2, |a, b| a.roomy() - b);
    r.uu_opt("checked_sub", "method", 1, 0, 2, |a, b| a.checked_sub(b));
}

pub fn forms_i(r: &mut Rec, full: bool) {
    r.ii("add", "ref_ref", 0, 1, 2, |a, b| a + b);
    r.ii("sub", "ref_ref", 0, 1, 2, |a, b| a - b);
    r.ii("add", "val_val", 0, 1, 2, |a, b| a.roomy() + b.roomy());
    r.ii("sub", "val_val", 0, 1, 2, |a, b| a.roomy() - b.roomy());
    if full {
        r.ii("add", "val_ref", 0, 1, 2, |a, b| a.roomy() + b);
        r.ii("add", "ref_val", 0, 1, 2, |a, b| a + b.roomy());
        r.ii("add", "val_val_capb", 0, 1, 2, |a, b| a.roomy() + with_cap_i(b, a.magnitude().verif_raw().len() + 2));
        r.ii("sub", "val_ref", 0, 1, 2, |a, b| a.roomy() - b);
        r.ii("sub", "ref_val", 0, 1, 2, |a, b| a - b.roomy());
        r.ii("sub", "ref_val_cap", 0, 1, 2, |a, b| a - with_cap_i(b, a.magnitude().verif_raw().len() + 2));
        r.clone_i(0, 2);
        r.i_assign("add", "assign_ref", 2, 1, |d, s| *d += s);
        r.clone_i(0, 2);
        r.i_assign("add", "assign_val", 2, 1, |d, s| *d += s.roomy());
        r.clone_i(0, 2);
        r.i_assign("sub", "assign_ref", 2, 1, |d, s| *d -= s);
        r.clone_i(0, 2);
        r.i_assign("sub", "assign_val", 2, 1, |d, s| *d -= s.roomy());
        r.ii_opt("checked_add", "method", 0, 1, 2, |a, b| a.checked_add(b));
        r.ii_opt("checked_add", "trait", 0, 1, 2, |a, b| num_traits::CheckedAdd::checked_add(a, b));
        r.ii_opt("checked_sub", "trait", 0, 1, 2, |a, b| num_traits::CheckedSub::checked_sub(a, b));
        r.ii_opt("checked_sub", "method", 0, 1, 2, |a, b| a.checked_sub(b));
    }
}

fn scalar_forms(r: &mut Rec, rng: &mut Rng) {
    // scalar leaf forms on u0 (C10 covers the full table; these hit the leaf code paths)
    let s32: u32 = *rng.pick(&[0u32, 1, u32::MAX, 0x8000_0000]);
    let s64: u64 = *rng.pick(&LANDMARKS);
    let s128: u128 = *rng.pick(&[0u128, 1, u64::MAX as u128, (u64::MAX as u128) + 1, u128::MAX, u128::MAX - 1, 1u128 << 127]);
    let ex = |s: &Sc| ex_sc("U", &[s.clone()], "rc");
    let exr = |s: &Sc| ex_sc("U", &[s.clone()], "cr");
    r.op("add", "ref_u32", &[u(0)], &[u(2)], &ex(&s32.sc()), |g| {
        g.u[2] = &g.u[0] + s32;
        Ret::none()
    });
    r.op("add", "val_u64", &[u(0)], &[u(2)], &ex(&s64.sc()), |g| {
        g.u[2] = g.u[0].roomy() + s64;
        Ret::none()
    });
    r.op("add", "val_u128", &[u(0)], &[u(2)], &ex(&s128.sc()), |g| {
        g.u[2] = g.u[0].roomy() + s128;
        Ret::none()
    });
    r.op("add", "u128_val", &[u(0)], &[u(2)], &exr(&s128.sc()), |g| {
        g.u[2] = s128 + g.u[0].roomy();
        Ret::none()
    });
    r.op("sub", "val_u32", &[u(0)], &[u(2)], &ex(&s32.sc()), |g| {
        g.u[2] = g.u[0].roomy() - s32;
        Ret::none()
    });
    r.op("sub", "val_u64", &[u(0)], &[u(2)], &ex(&s64.sc()), |g| {
        g.u[2] = g.u[0].roomy() - s64;
        Ret::none()
    });
    r.op("sub", "val_u128", &[u(0)], &[u(2)], &ex(&s128.sc()), |g| {
        g.u[2] = g.u[0].roomy() - s128;
        Ret::none()
    });
    r.op("sub", "u64_val", &[u(0)], &[u(2)], &exr(&s64.sc()), |g| {
        g.u[2] = s64 - g.u[0].roomy();
        Ret::none()
    });
    r.op("sub", "u128_val", &[u(0)], &[u(2)], &exr(&s128.sc()), |g| {
        g.u[2] = s128 - g.u[0].roomy();
        Ret::none()
    });
    r.op("sub", "u32_ref", &[u(0)], &[u(2)], &exr(&s32.sc()), |g| {
        g.u[2] = s32 - &g.u[0];
        Ret::none()
    });
}

fn one_case(r: &mut Rec, label: &str, a: &[u64], b: &[u64], full_signs: bool) {
    if !r.case(label) {
        return;
    }
    let mut rng = r.case_rng();
    if rng.chance(1, 2) {
        load_u(r, 0, a);
        load_u_words(r, 1, b);
    } else {
        load_u_words(r, 0, a);
        load_u(r, 1, b);
    }
    forms_u(r);
    if rng.chance(1, 3) {
        scalar_forms(r, &mut rng);
    }
    let combos = [(Sign::Plus, Sign::Plus), (Sign::Plus, Sign::Minus), (Sign::Minus, Sign::Plus), (Sign::Minus, Sign::Minus)];
    let pick_full = rng.below(4) as usize;
    for (k, (sa, sb)) in combos.iter().enumerate() {
        load_i_from_u(r, 0, *sa, 0);
        load_i(r, 1, *sb, b);
        forms_i(r, full_signs || k == pick_full);
    }
}

/// a and b such that a + b carries through every digit of b and on into a's tail
fn carry_chain(la: usize, lb: usize, stop: usize) -> (Vec<u64>, Vec<u64>) {
    // b = all ones (lb digits); a = 1 in the lowest digit, MAX in digits lb..stop, then a non-MAX digit
    let mut a = vec![0u64; la];
    let b = vec![u64::MAX; lb];
    if la > 0 {
        a[0] = 1;
    }
    for k in lb..la.min(stop) {
        a[k] = u64::MAX;
    }
    if la > 0 && a[la - 1] == 0 {
        a[la - 1] = 5;
    }
    (a, b)
}

/// a - b borrows through to the top digit: a = B^(la-1), b = 1 or low digits
fn borrow_chain(la: usize, lb: usize) -> (Vec<u64>, Vec<u64>) {
    let mut a = vec![0u64; la];
    if la > 0 {
        a[la - 1] = 1;
    }
    let mut b = vec![0u64; lb];
    if lb > 0 {
        b[0] = 1;
        b[lb - 1] |= 1;
    }
    (a, b)
}

/// structured carry / borrow chains over all length pairs (also used by the C10 driver)
pub fn chains(r: &mut Rec, maxlen: usize, all: bool) {
    for la in 0..=maxlen {
        for lb in 1..=la {
            if all || (la + 2 * lb) % 4 == 0 {
                let (a, b) = carry_chain(la, lb, la);
                one_case(r, &format!("carry_full {}x{}", la, lb), &a, &b, false);
                let (a, b) = carry_chain(la, lb, (la + lb) / 2);
                one_case(r, &format!("carry_part {}x{}", la, lb), &a, &b, false);
                let (a, b) = borrow_chain(la, lb);
                one_case(r, &format!("borrow {}x{}", la, lb), &a, &b, false);
            }
        }
    }
}

/// stepping by one through zero and through the digit boundaries (num_integer::Integer::inc / dec, the += 1 / -= 1
/// of the library): both directions, both types, by the trait path
fn steps(r: &mut Rec) {
    use num_integer::Integer;
    let mags: Vec<Vec<u64>> = vec![vec![], vec![1], vec![2], vec![u64::MAX], vec![0, 1], vec![1, 1], vec![u64::MAX, u64::MAX], vec![0, 0, 1], vec![u64::MAX - 1, u64::MAX, u64::MAX]];
    for (k, m) in mags.iter().enumerate() {
        if !r.case(&format!("steps {}", k)) {
            continue;
        }
        load_u(r, 0, m);
        r.clone_u(0, 2);
        r.u_mut("inc", "integer_trait", "", 2, |d| Integer::inc(d));
        r.u_mut("inc", "integer_trait", "", 2, |d| Integer::inc(d));
        r.u_mut("dec", "integer_trait", "", 2, |d| Integer::dec(d));
        r.u_mut("dec", "integer_trait", "", 2, |d| Integer::dec(d));
        r.u_mut("dec", "integer_trait", "", 2, |d| Integer::dec(d));
        for sign in [Sign::Plus, Sign::Minus] {
            load_i_from_u(r, 0, sign, 0);
            r.clone_i(0, 2);
            for _ in 0..3 {
                r.i_mut("inc", "integer_trait", "", 2, |d| Integer::inc(d));
            }
            r.clone_i(0, 2);
            for _ in 0..3 {
                r.i_mut("dec", "integer_trait", "", 2, |d| Integer::dec(d));
            }
        }
    }
}

pub fn run(r: &mut Rec) {
    steps(r);
    let maxlen: usize = if r.thorough { 23 } else { 17 };
    // per-(la, lb) how many patterned pairs
    let per_pair = if r.thorough { 6 } else { 1 };
    let mut rng = Rng(r.seed ^ 0xC01);
    for la in 0..=maxlen {
        for lb in 0..=maxlen {
            for rep in 0..per_pair {
                let pa = if rep == 0 && (la + lb) % 3 == 0 { Pat::Ones } else { *rng.pick(&PATS) };
                let pb = if rep == 0 && (la + lb) % 3 == 1 { Pat::Ones } else { *rng.pick(&PATS) };
                let a = digits(&mut rng, la, pa);
                let b = digits(&mut rng, lb, pb);
                one_case(r, &format!("pat {}x{} {:?} {:?}", la, lb, pa, pb), &a, &b, false);
            }
        }
    }
    chains(r, maxlen, r.thorough);
    // exhaustive landmark strings around the block boundary (lengths 4..6 x 4..6, reduced alphabet)
    let alpha = [0u64, 1, u64::MAX];
    let lens: &[usize] = if r.thorough { &[1, 2, 5, 6] } else { &[5] };
    for &l in lens {
        let n = alpha.len().pow(2) as u64;
        // vary the two digits next to the boundary and the top digit; others all ones
        for code in 0..n * n {
            let mut a = vec![u64::MAX; l];
            let mut b = vec![u64::MAX; l];
            let c = code as usize;
            a[0] = alpha[c % 3];
            b[0] = alpha[(c / 3) % 3];
            a[l - 1] = alpha[(c / 9) % 3];
            b[l - 1] = alpha[(c / 27) % 3];
            if a[l - 1] == 0 || b[l - 1] == 0 {
                continue;
            }
            one_case(r, &format!("landmark {} code {}", l, code), &a, &b, false);
        }
    }
    // equal operands, zero operands, full sign matrix
    for l in [0usize, 1, 4, 5, 6, 10, 11] {
        let a = digits(&mut rng, l, Pat::Random);
        one_case(r, &format!("equal {}", l), &a, &a.clone(), true);
        one_case(r, &format!("zero_rhs {}", l), &a, &[], true);
        one_case(r, &format!("zero_lhs {}", l), &[], &a, true);
    }
}
