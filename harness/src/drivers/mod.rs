pub mod addsub;

use crate::rec::Rec;

pub fn run(name: &str, r: &mut Rec) -> bool {
    match name {
        "addsub" => addsub::run(r),
        _ => return false,
    }
    true
}
