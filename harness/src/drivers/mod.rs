pub mod addsub;
pub mod div;
pub mod mul;

use crate::rec::Rec;

pub fn run(name: &str, r: &mut Rec) -> bool {
    match name {
        "addsub" => addsub::run(r),
        "div" => div::run(r),
        "mul" => mul::run(r),
        _ => return false,
    }
    true
}
