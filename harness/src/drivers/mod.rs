pub mod addsub;
#[cfg(all(feature = "quickcheck", feature = "arbitrary"))]
pub mod arb;
pub mod bits;
pub mod bytes;
pub mod conv;
pub mod cost;
pub mod div;
pub mod failures;
pub mod forms;
pub mod history;
pub mod matrix;
pub mod origins;
pub mod modpow;
pub mod mul;
#[cfg(feature = "rand")]
pub mod rand_drv;
pub mod numth;
#[cfg(feature = "serde")]
pub mod serde_drv;
pub mod text;
pub mod transcript;

use crate::rec::Rec;

pub fn run(name: &str, r: &mut Rec) -> bool {
    match name {
        "addsub" => addsub::run(r),
        #[cfg(all(feature = "quickcheck", feature = "arbitrary"))]
        "arb" => arb::run(r),
        "bits" => bits::run(r),
        "bytes" => bytes::run(r),
        "conv" => conv::run(r),
        "cost" => cost::run(r),
        "div" => div::run(r),
        "failures" => failures::run(r),
        "forms" => forms::run(r),
        "history" => history::run(r),
        "matrix" => matrix::run(r),
        "origins" => origins::run(r),
        "mul" => mul::run(r),
        #[cfg(feature = "rand")]
        "rand" => rand_drv::run(r),
        "roots" => numth::run_roots(r),
        "pow" => numth::run_pow(r),
        "gcd" => numth::run_gcd(r),
        "sign" => numth::run_sign(r),
        "modpow" => modpow::run(r),
        "text" => text::run(r),
        #[cfg(feature = "serde")]
        "serde" => serde_drv::run(r),
        "transcript" => transcript::run(r),
        _ => return false,
    }
    true
}
