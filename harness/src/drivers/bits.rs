//! C07 driver: bitwise logic, shifts and bit queries over two's-complement semantics.

use crate::gen::*;
use crate::rec::*;
use num_bigint::{BigInt, BigUint, Sign};

fn logic_u(r: &mut Rec, k: u64) {
    match k % 6 {
        0 => {
            r.uu("bitand", "ref_ref", 0, 1, 2, |a, b| a & b);
            r.uu("bitor", "ref_ref", 0, 1, 2, |a, b| a | b);
            r.uu("bitxor", "ref_ref", 0, 1, 2, |a, b| a ^ b);
        }
        1 => {
            r.uu("bitand", "val_ref", 0, 1, 2, |a, b| a.roomy() & b);
            r.uu("bitor", "val_ref", 0, 1, 2, |a, b| a.roomy() | b);
            r.uu("bitxor", "val_ref", 0, 1, 2, |a, b| a.roomy() ^ b);
        }
        2 => {
            r.uu("bitand", "ref_val", 0, 1, 2, |a, b| a & b.roomy());
            r.uu("bitor", "ref_val", 0, 1, 2, |a, b| a | b.roomy());
            r.uu("bitxor", "ref_val", 0, 1, 2, |a, b| a ^ b.roomy());
        }
        3 => {
            r.uu("bitand", "val_val", 0, 1, 2, |a, b| a.roomy() & b.roomy());
            r.uu("bitor", "val_val", 0, 1, 2, |a, b| a.roomy() | b.roomy());
            r.uu("bitxor", "val_val", 0, 1, 2, |a, b| a.roomy() ^ b.roomy());
        }
        4 => {
            r.clone_u(0, 2);
            r.u_assign("bitand", "assign_ref", 2, 1, |d, s| *d &= s);
            r.clone_u(0, 2);
            r.u_assign("bitor", "assign_ref", 2, 1, |d, s| *d |= s);
            r.clone_u(0, 2);
            r.u_assign("bitxor", "assign_ref", 2, 1, |d, s| *d ^= s);
        }
        _ => {
            r.clone_u(0, 2);
            r.u_assign("bitand", "assign_val", 2, 1, |d, s| *d &= s.roomy());
            r.clone_u(0, 2);
            r.u_assign("bitor", "assign_val", 2, 1, |d, s| *d |= s.roomy());
            r.clone_u(0, 2);
            r.u_assign("bitxor", "assign_val", 2, 1, |d, s| *d ^= s.roomy());
        }
    }
}

pub fn logic_i(r: &mut Rec, k: u64) {
    match k % 6 {
        0 => {
            r.ii("bitand", "ref_ref", 0, 1, 2, |a, b| a & b);
            r.ii("bitor", "ref_ref", 0, 1, 2, |a, b| a | b);
            r.ii("bitxor", "ref_ref", 0, 1, 2, |a, b| a ^ b);
        }
        1 => {
            r.ii("bitand", "val_ref", 0, 1, 2, |a, b| a.roomy() & b);
            r.ii("bitor", "val_ref", 0, 1, 2, |a, b| a.roomy() | b);
            r.ii("bitxor", "val_ref", 0, 1, 2, |a, b| a.roomy() ^ b);
        }
        2 => {
            r.ii("bitand", "ref_val", 0, 1, 2, |a, b| a & b.roomy());
            r.ii("bitor", "ref_val", 0, 1, 2, |a, b| a | b.roomy());
            r.ii("bitxor", "ref_val", 0, 1, 2, |a, b| a ^ b.roomy());
        }
        3 => {
            r.ii("bitand", "val_val", 0, 1, 2, |a, b| a.roomy() & b.roomy());
            r.ii("bitor", "val_val", 0, 1, 2, |a, b| a.roomy() | b.roomy());
            r.ii("bitxor", "val_val", 0, 1, 2, |a, b| a.roomy() ^ b.roomy());
        }
        4 => {
            r.clone_i(0, 2);
            r.i_assign("bitand", "assign_ref", 2, 1, |d, s| *d &= s);
            r.clone_i(0, 2);
            r.i_assign("bitor", "assign_ref", 2, 1, |d, s| *d |= s);
            r.clone_i(0, 2);
            r.i_assign("bitxor", "assign_ref", 2, 1, |d, s| *d ^= s);
        }
        _ => {
            r.clone_i(0, 2);
            r.i_assign("bitand", "assign_val", 2, 1, |d, s| *d &= s.roomy());
            r.clone_i(0, 2);
            r.i_assign("bitor", "assign_val", 2, 1, |d, s| *d |= s.roomy());
            r.clone_i(0, 2);
            r.i_assign("bitxor", "assign_val", 2, 1, |d, s| *d ^= s.roomy());
        }
    }
}

/// shift register (U bank reg 0 / I bank reg 0) by `amt` of every listed type that can hold it
macro_rules! shift_types {
    ($r:expr, $bank:ident, $ty:expr, $idx:expr, $op:expr, $sh:tt, $sha:tt, $amt:expr, $k:expr, [$($t:ident),*]) => {{
        let amt: i128 = $amt;
        let mut n = 0u64;
        $(
            if let Ok(a) = <$t>::try_from(amt) {
                let ex = ex_sc($ty, &[a.sc()], "rc");
                match ($k + n) % 6 {
                    4 => { $r.op($op, concat!("val_ref", stringify!($t)), &[$idx(0)], &[$idx(2)], &ex, |g| { g.$bank[2] = g.$bank[0].roomy() $sh &a; Ret::none() }); }
                    5 => {
                        $r.op("clone", "clone", &[$idx(0)], &[$idx(2)], &format!("\"ty\":\"{}\"", $ty), |g| { g.$bank[2] = g.$bank[0].roomy(); Ret::none() });
                        $r.op($op, concat!("assign_ref", stringify!($t)), &[$idx(2)], &[$idx(2)], &ex, |g| { g.$bank[2] $sha &a; Ret::none() });
                    }
                    0 => { $r.op($op, concat!("val_", stringify!($t)), &[$idx(0)], &[$idx(2)], &ex, |g| { g.$bank[2] = g.$bank[0].roomy() $sh a; Ret::none() }); }
                    1 => { $r.op($op, concat!("ref_", stringify!($t)), &[$idx(0)], &[$idx(2)], &ex, |g| { g.$bank[2] = &g.$bank[0] $sh a; Ret::none() }); }
                    2 => { $r.op($op, concat!("ref_ref", stringify!($t)), &[$idx(0)], &[$idx(2)], &ex, |g| { g.$bank[2] = &g.$bank[0] $sh &a; Ret::none() }); }
                    _ => {
                        $r.op("clone", "clone", &[$idx(0)], &[$idx(2)], &format!("\"ty\":\"{}\"", $ty), |g| { g.$bank[2] = g.$bank[0].roomy(); Ret::none() });
                        $r.op($op, concat!("assign_", stringify!($t)), &[$idx(2)], &[$idx(2)], &ex, |g| { g.$bank[2] $sha a; Ret::none() });
                    }
                }
                n += 1;
            }
        )*
        let _ = n;
    }};
}

fn shifts(r: &mut Rec, rng: &mut Rng, bits_u: u64, bits_i: u64) {
    // amounts: around digit boundaries, beyond the value's length, negative, type maxima (on small/zero values)
    let mut amts: Vec<i128> = vec![0, 1, 7, 8, 63, 64, 65, 127, 128, 129, 192, 255, 256];
    amts.push(rng.below(200) as i128);
    amts.push(bits_u as i128);
    amts.push(bits_u as i128 + 1);
    amts.push((bits_u as i128 - 1).max(0));
    amts.push(-1);
    amts.push(-(rng.below(130) as i128) - 1);
    let pick = rng.below(u64::MAX);
    for (j, &amt) in amts.iter().enumerate() {
        if !r.thorough && (j as u64 + pick) % 3 != 0 && amt >= 0 {
            continue;
        }
        let k = rng.below(6);
        // left shifts only when the result stays small
        if amt <= 300 {
            shift_types!(r, u, "U", u, "shl", <<, <<=, amt, k, [u8, u16, u32, u64, u128, usize, i8, i16, i32, i64, i128, isize]);
            shift_types!(r, i, "I", i, "shl", <<, <<=, amt, k + 1, [u8, u16, u32, u64, u128, usize, i8, i16, i32, i64, i128, isize]);
        }
        shift_types!(r, u, "U", u, "shr", >>, >>=, amt, k + 2, [u8, u16, u32, u64, u128, usize, i8, i16, i32, i64, i128, isize]);
        shift_types!(r, i, "I", i, "shr", >>, >>=, amt, k + 3, [u8, u16, u32, u64, u128, usize, i8, i16, i32, i64, i128, isize]);
    }
    // right shifts by each type's maximum (value shifted out completely)
    let k = rng.below(4);
    for amt in [u8::MAX as i128, i8::MAX as i128, u16::MAX as i128, i16::MAX as i128, u32::MAX as i128, i32::MAX as i128, u64::MAX as i128,
                i64::MAX as i128, i128::MAX, i8::MIN as i128, i64::MIN as i128, i128::MIN] {
        shift_types!(r, u, "U", u, "shr", >>, >>=, amt, k, [u8, u16, u32, u64, u128, usize, i8, i16, i32, i64, i128, isize]);
        shift_types!(r, i, "I", i, "shr", >>, >>=, amt, k, [u8, u16, u32, u64, u128, usize, i8, i16, i32, i64, i128, isize]);
    }
    let _ = bits_i;
}

fn queries(r: &mut Rec, rng: &mut Rng) {
    let bits_u = r.g.u[0].bits();
    let tz = r.g.u[0].trailing_zeros().unwrap_or(0);
    r.q_u("bits", "method", "", 0, |a| Ret::none().n(a.bits() as i64));
    r.q_i("bits", "method", "", 0, |a| Ret::none().n(a.bits() as i64));
    r.q_u("trailing_zeros", "method", "", 0, |a| {
        let t = a.trailing_zeros();
        Ret::none().some(t.is_some()).n(t.unwrap_or(0) as i64)
    });
    r.q_i("trailing_zeros", "method", "", 0, |a| {
        let t = a.trailing_zeros();
        Ret::none().some(t.is_some()).n(t.unwrap_or(0) as i64)
    });
    r.q_u("trailing_ones", "method", "", 0, |a| Ret::none().n(a.trailing_ones() as i64));
    r.q_u("count_ones", "method", "", 0, |a| Ret::none().n(a.count_ones() as i64));
    // bit indices: below / at / above the lowest set bit, digit boundaries, beyond the top, far beyond
    let mut idxs: Vec<u64> = vec![0, 1, tz.saturating_sub(1), tz, tz + 1, 63, 64, 65, 127, 128, bits_u.saturating_sub(1), bits_u, bits_u + 1, bits_u + 63, bits_u + 64,
                                  bits_u + 130];
    idxs.push(rng.below(bits_u + 70));
    idxs.push(rng.below(bits_u + 70));
    for &ix in &idxs {
        let ex = format!("\"sc\":{}", sc_list(&[ix.sc()]));
        r.q_u("bit", "method", &ex, 0, |a| Ret::none().b(a.bit(ix)));
        r.q_i("bit", "method", &ex, 0, |a| Ret::none().b(a.bit(ix)));
    }
    for ix in [u64::MAX, 1 << 40, u32::MAX as u64 + 1] {
        let ex = format!("\"sc\":{}", sc_list(&[ix.sc()]));
        r.q_u("bit", "method", &ex, 0, |a| Ret::none().b(a.bit(ix)));
        r.q_i("bit", "method", &ex, 0, |a| Ret::none().b(a.bit(ix)));
    }
    for &ix in &idxs {
        for v in [true, false] {
            if !r.thorough && rng.chance(1, 2) {
                continue;
            }
            let ex = format!("\"sc\":{},\"v\":{}", sc_list(&[ix.sc()]), v);
            r.clone_u(0, 2);
            r.u_mut("set_bit", "method", &ex, 2, |d| d.set_bit(ix, v));
            r.clone_i(0, 2);
            r.i_mut("set_bit", "method", &ex, 2, |d| d.set_bit(ix, v));
        }
    }
    // clearing a bit far beyond the top is a no-op for non-negative values
    let ex = format!("\"sc\":{},\"v\":false", sc_list(&[(1u64 << 40).sc()]));
    r.clone_u(0, 2);
    r.u_mut("set_bit", "method", &ex, 2, |d| d.set_bit(1 << 40, false));
    if r.g.i[0].sign() != Sign::Minus {
        r.clone_i(0, 2);
        r.i_mut("set_bit", "method", &ex, 2, |d| d.set_bit(1 << 40, false));
    } else {
        // setting a bit far beyond the top of a negative value is a no-op
        let ex = format!("\"sc\":{},\"v\":true", sc_list(&[(1u64 << 40).sc()]));
        r.clone_i(0, 2);
        r.i_mut("set_bit", "method", &ex, 2, |d| d.set_bit(1 << 40, true));
    }
}

const SIGNS3: [Sign; 3] = [Sign::Minus, Sign::NoSign, Sign::Plus];

fn one_case(r: &mut Rec, label: &str, a: &[u64], b: &[u64], sa: Sign, sb: Sign, heavy: bool) {
    if !r.case(label) {
        return;
    }
    let mut rng = r.case_rng();
    let az: Vec<u64> = if sa == Sign::NoSign { vec![] } else { a.to_vec() };
    let bz: Vec<u64> = if sb == Sign::NoSign { vec![] } else { b.to_vec() };
    load_u(r, 0, &az);
    load_u(r, 1, &bz);
    load_i_from_u(r, 0, sa, 0);
    load_i_from_u(r, 1, sb, 1);
    let k = rng.below(6);
    logic_u(r, k);
    logic_i(r, k + 1);
    logic_i(r, k + 4);
    if heavy {
        for j in 0..6 {
            logic_i(r, j);
            logic_u(r, j);
        }
    }
    r.i1("not", "val", "", 0, 2, |a| !a.roomy());
    r.i1("not", "ref", "", 0, 2, |a| !a);
    if heavy || rng.chance(1, 3) {
        let bu = r.g.u[0].bits();
        let bi = r.g.i[0].bits();
        shifts(r, &mut rng, bu, bi);
    }
    if heavy || rng.chance(1, 3) {
        queries(r, &mut rng);
    }
}

/// magnitudes 2^(64k) (all lower digits zero) against each other, all-ones and split operands (also used by C10)
pub fn pow64_family(r: &mut Rec) {
    // the 2^(64k) family on both sides, and complements of each other
    for ka in 0..=4usize {
        for kb in 0..=4usize {
            for (sa, sb) in [(Sign::Minus, Sign::Minus), (Sign::Minus, Sign::Plus), (Sign::Plus, Sign::Minus)] {
                let mut a = vec![0u64; ka + 1];
                a[ka] = 1;
                let mut b = vec![0u64; kb + 1];
                b[kb] = 1;
                one_case(r, &format!("pow64 {} {} {:?}{:?}", ka, kb, sa, sb), &a, &b, sa, sb, false);
                let ones = vec![u64::MAX; kb + 1];
                one_case(r, &format!("pow64 vs ones {} {} {:?}{:?}", ka, kb, sa, sb), &a, &ones, sa, sb, false);
                // b = a * c + low bits: shorter operand with zero low digits against a longer one
                let mut c = vec![0u64; kb + 2];
                c[kb + 1] = 5;
                c[0] = 2;
                one_case(r, &format!("pow64 vs split {} {} {:?}{:?}", ka, kb, sa, sb), &a, &c, sa, sb, false);
            }
        }
    }
}

/// values m << t whose lowest set bit sits at every position around the digit boundaries (t = 62..65, 126..129, 190..193)
/// and a few in between: the masks built from `trailing_zeros % 64` meet 0, 1, 62 and 63; bit writes below / at / above
/// the lowest set bit on both signs, and the bit queries
pub fn lowbit_family(r: &mut Rec, all: bool) {
    let ts: Vec<u64> = if all { vec![0, 1, 31, 62, 63, 64, 65, 100, 126, 127, 128, 129, 190, 191, 192, 193] } else { vec![62, 63, 64, 127, 128, 191] };
    for &t in &ts {
        for (mi, m) in [1u64, 5, u64::MAX].iter().enumerate() {
            if !r.case(&format!("lowbit t{} m{}", t, mi)) {
                continue;
            }
            let v = BigUint::from(*m) << t;
            load_u(r, 0, &v.verif_raw().to_vec());
            for sign in [Sign::Minus, Sign::Plus] {
                load_i_from_u(r, 0, sign, 0);
                let idxs: Vec<u64> = vec![0, 1, t.saturating_sub(2), t.saturating_sub(1), t, t + 1, 63, 64, t + 64, v.bits() - 1, v.bits()];
                for &ix in &idxs {
                    for val in [true, false] {
                        let ex = format!("\"sc\":{},\"v\":{}", sc_list(&[ix.sc()]), val);
                        r.clone_i(0, 2);
                        r.i_mut("set_bit", "method", &ex, 2, |d| d.set_bit(ix, val));
                        if sign == Sign::Plus {
                            r.clone_u(0, 2);
                            r.u_mut("set_bit", "method", &ex, 2, |d| d.set_bit(ix, val));
                        }
                    }
                    let ex = format!("\"sc\":{}", sc_list(&[ix.sc()]));
                    r.q_i("bit", "method", &ex, 0, |a| Ret::none().b(a.bit(ix)));
                }
                r.q_i("trailing_zeros", "method", "", 0, |a| {
                    let tz = a.trailing_zeros();
                    Ret::none().some(tz.is_some()).n(tz.unwrap_or(0) as i64)
                });
                // a right shift that cuts inside / at / after the zero run (floor rounding of negatives)
                for amt in [t.saturating_sub(1), t, t + 1] {
                    let ex = ex_sc("I", &[amt.sc()], "rc");
                    r.op("shr", "ref_u64", &[i(0)], &[i(2)], &ex, |g| {
                        g.i[2] = &g.i[0] >> amt;
                        Ret::none()
                    });
                }
            }
        }
    }
}

pub fn run(r: &mut Rec) {
    let mut rng = Rng(r.seed ^ 0xC07);
    lowbit_family(r, true);
    let pats = [Pat::Pow2, Pat::Pow2m1, Pat::LowZeros, Pat::Ones, Pat::Random, Pat::OneDigit, Pat::Landmark, Pat::Sparse, Pat::MaxM1];
    let maxlen = if r.thorough { 6 } else { 4 };
    for la in 1..=maxlen {
        for lb in 1..=maxlen {
            for sa in SIGNS3 {
                for sb in SIGNS3 {
                    let reps = if r.thorough { 4 } else { 1 };
                    for rep in 0..reps {
                        let (pa, pb) = (*rng.pick(&pats), *rng.pick(&pats));
                        let mut a = digits(&mut rng, la, pa);
                        let mut b = digits(&mut rng, lb, pb);
                        // powers of two with all lower digits zero: the two's-complement carry runs through whole digits
                        if pa == Pat::Pow2 && rng.chance(1, 2) {
                            a[la - 1] = 1;
                        }
                        if pb == Pat::Pow2 && rng.chance(1, 2) {
                            b[lb - 1] = 1;
                        }
                        let heavy = rep == 0 && (la + lb) % 5 == 0 && sa != Sign::NoSign;
                        one_case(r, &format!("{}x{} {:?}{:?} {:?} {:?}", la, lb, sa, sb, pa, pb), &a, &b, sa, sb, heavy);
                        let _ = (&mut a, &mut b);
                    }
                }
            }
        }
    }
    pow64_family(r);
    // long trailing-zero runs for shr rounding with small shift types
    for tz in [100u32, 127, 128, 129, 255, 256, 257, 300, 511] {
        if !r.case(&format!("tzrun {}", tz)) {
            continue;
        }
        let mut rng2 = r.case_rng();
        let v = (BigInt::from(3) << tz).to_biguint().unwrap();
        let d = v.verif_raw().to_vec();
        load_u(r, 0, &d);
        load_i_from_u(r, 0, Sign::Minus, 0);
        let (bu, bi) = (r.g.u[0].bits(), r.g.i[0].bits());
        shifts(r, &mut rng2, bu, bi);
        for amt in [1i128, 2, 100, 127, 128, 200, 255, tz as i128 - 1, tz as i128, tz as i128 + 1, tz as i128 + 2] {
            shift_types!(r, i, "I", i, "shr", >>, >>=, amt, rng2.below(4), [u8, u16, u32, u64, u128, usize, i8, i16, i32, i64, i128, isize]);
        }
    }
}
