//! C20 driver: multiply-accumulate work (sum of row lengths given to the inner row routine) for fixed dense
//! operands, balanced and unbalanced shapes.  No timing is used.

use crate::rec::*;
use num_bigint::verif_probe::{self, Probe};
use num_bigint::BigUint;

fn dense(n: usize, salt: u64) -> BigUint {
    // fixed dense digits: no zero digits, no special structure
    let mut v: Vec<u32> = Vec::with_capacity(2 * n);
    let mut x = 0x9E3779B97F4A7C15u64 ^ salt;
    for _ in 0..2 * n {
        x ^= x << 13;
        x ^= x >> 7;
        x ^= x << 17;
        v.push((x as u32) | 1);
    }
    BigUint::new(v)
}

fn work(n: usize, m: usize) -> u64 {
    let a = dense(n, 1);
    let b = dense(m, 2);
    let before = verif_probe::get(Probe::MAC_DIGIT_WORK);
    let p = &a * &b;
    let after = verif_probe::get(Probe::MAC_DIGIT_WORK);
    assert!(p.bits() > 0);
    after - before
}

/// the same measure for a square (both operands the same value)
fn work_square(n: usize) -> u64 {
    let a = dense(n, 3);
    let before = verif_probe::get(Probe::MAC_DIGIT_WORK);
    let p = &a * &a;
    let after = verif_probe::get(Probe::MAC_DIGIT_WORK);
    assert!(p.bits() > 0);
    after - before
}
/// ... and for `acc *= &w` where acc was shrunk in place before (spare capacity for the whole product)
fn work_assign(n: usize) -> u64 {
    let (u, v, w) = (dense(n, 4), dense(n, 5), dense(n, 6));
    let mut acc = (&u * &v) >> (64 * n as u64);
    let before = verif_probe::get(Probe::MAC_DIGIT_WORK);
    acc *= &w;
    let after = verif_probe::get(Probe::MAC_DIGIT_WORK);
    assert!(acc.bits() > 0);
    after - before
}

/// a sparse operand of n digits: `nz` non-zero digits spread evenly, lowest and top digit non-zero (nothing for the
/// low-zero stripping to remove)
fn sparse(n: usize, nz: usize) -> BigUint {
    let mut v = vec![0u32; 2 * n];
    for k in 0..nz {
        let pos = if nz == 1 { 0 } else { k * (n - 1) / (nz - 1) };
        v[2 * pos] = 0x9E37_79B9 ^ k as u32 | 1;
        v[2 * pos + 1] = 0x7F4A_7C15 ^ (k as u32).wrapping_mul(77) | 1;
    }
    BigUint::new(v)
}
fn work_pair(a: &BigUint, b: &BigUint) -> u64 {
    let before = verif_probe::get(Probe::MAC_DIGIT_WORK);
    let p = a * b;
    let after = verif_probe::get(Probe::MAC_DIGIT_WORK);
    assert!(p.bits() > 0);
    after - before
}

pub fn run(r: &mut Rec) {
    if !r.case("cost table") {
        return;
    }
    // sparse against dense, both orders, balanced and one-to-two: the quarter bound and the schoolbook bound only
    // (doubling ratios are not asked of sparse operands: skipped zero rows make them irregular)
    {
        let mut bal: Vec<String> = vec![];
        let mut unbal: Vec<String> = vec![];
        for &n in &[4096usize, 8192] {
            for &nz in &[8usize, 24, 32] {
                let s = sparse(n, nz);
                let d = dense(n, 7);
                bal.push(format!("{{\"n\":{},\"w\":{}}}", n, sc_json(&work_pair(&s, &d).sc())));
                bal.push(format!("{{\"n\":{},\"w\":{}}}", n, sc_json(&work_pair(&d, &s).sc())));
                let d2 = dense(2 * n, 8);
                unbal.push(format!("{{\"n\":{},\"m\":{},\"w\":{}}}", n, 2 * n, sc_json(&work_pair(&s, &d2).sc())));
                let s2 = sparse(2 * n, nz);
                unbal.push(format!("{{\"n\":{},\"m\":{},\"w\":{}}}", n, 2 * n, sc_json(&work_pair(&s2, &d).sc())));
            }
        }
        let ex = format!("\"bal\":[{}],\"unbal\":[{}]", bal.join(","), unbal.join(","));
        r.op("cost_sparse", "sparse_dense", &[], &[], &ex, |_| Ret::none());
    }
    let mut bal: Vec<String> = vec![];
    let mut n = 256usize;
    while n <= 16384 {
        bal.push(format!("{{\"n\":{},\"w\":{}}}", n, sc_json(&work(n, n).sc())));
        n *= 2;
    }
    let mut sq: Vec<String> = vec![];
    let mut asg: Vec<String> = vec![];
    let mut n = 256usize;
    while n <= 16384 {
        sq.push(format!("{{\"n\":{},\"w\":{}}}", n, sc_json(&work_square(n).sc())));
        asg.push(format!("{{\"n\":{},\"w\":{}}}", n, sc_json(&work_assign(n).sc())));
        n *= 2;
    }
    let mut unbal: Vec<String> = vec![];
    let ns: Vec<usize> = if r.thorough { vec![256, 257, 300, 340, 384, 512, 513, 700, 1024, 1500, 2048, 4096] } else { vec![256, 257, 300, 340, 512, 1024, 2048] };
    for &n in &ns {
        for m in [2 * n - 1, 2 * n, 64 * n] {
            if 64 * n == m && n > 1024 && !r.thorough {
                continue;
            }
            unbal.push(format!("{{\"n\":{},\"m\":{},\"w\":{}}}", n, m, sc_json(&work(n, m).sc())));
        }
    }
    let ex = format!("\"bal\":[{}],\"unbal\":[{}]", bal.join(","), unbal.join(","));
    r.op("cost_table", "ref_ref_distinct", &[], &[], &ex, |_| Ret::none());
    // the same inequalities for squares and for the in-place form on a buffer with spare capacity
    let ex = format!("\"bal\":[{}],\"unbal\":[]", sq.join(","));
    r.op("cost_table", "square", &[], &[], &ex, |_| Ret::none());
    let ex = format!("\"bal\":[{}],\"unbal\":[]", asg.join(","));
    r.op("cost_table", "mul_assign_spare_capacity", &[], &[], &ex, |_| Ret::none());
}
