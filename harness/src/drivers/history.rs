//! C04 driver: histories of in-place operations on a few long-lived registers whose buffers grow and
//! shrink, with pairwise Eq / Ord / Hash observations against other registers and against a twin of the
//! same value rebuilt from decimal text.

use crate::gen::*;
use crate::rec::*;
use num_bigint::{BigInt, BigUint, Sign};
use num_traits::{One, Zero};
use std::collections::hash_map::DefaultHasher;
use std::hash::{Hash, Hasher};

fn hash_of<T: Hash>(x: &T) -> [u8; 8] {
    let mut h = DefaultHasher::new();
    x.hash(&mut h);
    h.finish().to_le_bytes()
}
fn ord_num(o: std::cmp::Ordering) -> i64 {
    match o {
        std::cmp::Ordering::Less => -1,
        std::cmp::Ordering::Equal => 0,
        std::cmp::Ordering::Greater => 1,
    }
}

pub fn obs_u(r: &mut Rec, a: usize, b: usize) {
    r.op("obs", "U", &[u(a), u(b)], &[], "\"ty\":\"U\"", |g| {
        let (x, y) = (&g.u[a], &g.u[b]);
        Ret::none()
            .b(x == y)
            .n(ord_num(x.cmp(y)))
            .bytes("ha", &hash_of(x))
            .bytes("hb", &hash_of(y))
            .raw("lt", if x < y { "true" } else { "false" })
            .raw("ge", if x >= y { "true" } else { "false" })
            .raw("ne", if x != y { "true" } else { "false" })
            .raw("pc", &ord_num(x.partial_cmp(y).unwrap()).to_string())
            .raw("maxb", if std::cmp::max(x, y) == y { "true" } else { "false" })
    });
}
pub fn obs_i(r: &mut Rec, a: usize, b: usize) {
    r.op("obs", "I", &[i(a), i(b)], &[], "\"ty\":\"I\"", |g| {
        let (x, y) = (&g.i[a], &g.i[b]);
        Ret::none()
            .b(x == y)
            .n(ord_num(x.cmp(y)))
            .bytes("ha", &hash_of(x))
            .bytes("hb", &hash_of(y))
            .raw("lt", if x < y { "true" } else { "false" })
            .raw("ge", if x >= y { "true" } else { "false" })
            .raw("ne", if x != y { "true" } else { "false" })
            .raw("pc", &ord_num(x.partial_cmp(y).unwrap()).to_string())
            .raw("maxb", if std::cmp::max(x, y) == y { "true" } else { "false" })
    });
}

/// rebuild the value of register `a` from its decimal text into the twin register 6, then observe
fn twin_u(r: &mut Rec, a: usize) {
    // the decimal text is itself a recorded call (a value the library mangled may make it panic: that is data)
    let mut t: Vec<u8> = vec![];
    let ok = r.q_u("to_str_radix", "method", "\"radix\":10", a, |x| {
        t = x.to_str_radix(10).into_bytes();
        Ret::none().bytes("text", &t)
    });
    if !ok {
        return;
    }
    let ex = format!("\"ty\":\"U\",\"text\":{},\"radix\":10", bytes_json(&t));
    r.op("parse", "twin", &[], &[u(6)], &ex, |g| {
        let v = BigUint::parse_bytes(&t, 10);
        let some = v.is_some();
        g.u[6] = v.unwrap_or_default();
        Ret::none().some(some)
    });
    obs_u(r, a, 6);
    // exports of both must agree with the value (the rules of those operations check each side)
    r.q_u("to_bytes_le", "method", "", a, |x| Ret::none().bytes("bytes", &x.to_bytes_le()));
    r.q_u("to_u64_digits", "method", "", a, |x| Ret::none().bytes("bytes", &x.to_u64_digits().iter().flat_map(|w| w.to_le_bytes()).collect::<Vec<u8>>()));
    r.q_u("bits", "method", "", a, |x| Ret::none().n(x.bits() as i64));
    r.q_u("is_zero", "zero", "", a, |x| Ret::none().b(x.is_zero()));
}
fn twin_i(r: &mut Rec, a: usize) {
    let mut t: Vec<u8> = vec![];
    let ok = r.q_i("to_str_radix", "method", "\"radix\":10", a, |x| {
        t = x.to_str_radix(10).into_bytes();
        Ret::none().bytes("text", &t)
    });
    if !ok {
        return;
    }
    let ex = format!("\"ty\":\"I\",\"text\":{},\"radix\":10", bytes_json(&t));
    r.op("parse", "twin", &[], &[i(6)], &ex, |g| {
        let v = BigInt::parse_bytes(&t, 10);
        let some = v.is_some();
        g.i[6] = v.unwrap_or_default();
        Ret::none().some(some)
    });
    obs_i(r, a, 6);
    r.q_i("to_signed_bytes_le", "method", "", a, |x| Ret::none().bytes("bytes", &x.to_signed_bytes_le()));
    r.q_i("sign", "method", "", a, |x| {
        Ret::none().n(match x.sign() {
            Sign::Minus => -1,
            Sign::NoSign => 0,
            Sign::Plus => 1,
        })
    });
    r.q_i("is_zero", "zero", "", a, |x| Ret::none().b(x.is_zero()));
}

fn step_u(r: &mut Rec, rng: &mut Rng, maxdigits: usize) {
    let d = rng.below(4) as usize;
    let mut s = rng.below(4) as usize;
    if s == d {
        s = (s + 1) % 4;
    }
    let len = r.g.u[d].verif_raw().len();
    match rng.below(25) {
        0 | 1 => { r.u_assign("add", "assign_ref", d, s, |x, y| *x += y); }
        2 => { r.u_assign("sub", "assign_ref", d, s, |x, y| *x -= y); }
        3 => {
            // subtract something smaller so that the result shrinks without panicking
            if r.g.u[d] >= r.g.u[s] { r.u_assign("sub", "assign_val", d, s, |x, y| *x -= y.roomy()); } else { r.u_assign("sub", "assign_ref", s, d, |x, y| *x -= y); }
        }
        4 => { if len + r.g.u[s].verif_raw().len() <= maxdigits { r.u_assign("mul", "assign_ref", d, s, |x, y| *x *= y); } }
        5 => { r.x("\"part\":\"q\"".into()).u_assign("div", "assign_ref", d, s, |x, y| *x /= y); }
        6 => {
            let p = {
                let (a, b) = (&r.g.u[d], &r.g.u[s]);
                format!("\"part\":\"r\",\"hint\":[{}]", crate::drivers::div::hint_q("trunc", if a.is_zero() { 0 } else { 1 }, a.verif_raw(), if b.is_zero() { 0 } else { 1 }, b.verif_raw()))
            };
            r.x(p).u_assign("rem", "assign_ref", d, s, |x, y| *x %= y);
        }
        7 => {
            let k = *rng.pick(&[1u32, 7, 63, 64, 65, 128, 200]);
            if len * 64 + k as usize <= maxdigits * 64 {
                r.op("shl", "assign_u32", &[u(d)], &[u(d)], &ex_sc("U", &[k.sc()], "rc"), |g| { g.u[d] <<= k; Ret::none() });
            }
        }
        8 | 9 => {
            let k = *rng.pick(&[1u32, 7, 63, 64, 65, 128, 200, 1000]);
            r.op("shr", "assign_u32", &[u(d)], &[u(d)], &ex_sc("U", &[k.sc()], "rc"), |g| { g.u[d] >>= k; Ret::none() });
        }
        10 => { r.u_assign("bitand", "assign_ref", d, s, |x, y| *x &= y); }
        11 => { r.u_assign("bitor", "assign_ref", d, s, |x, y| *x |= y); }
        12 => { r.u_assign("bitxor", "assign_ref", d, s, |x, y| *x ^= y); }
        13 => {
            // xor with itself-like value: clears to zero through ^=
            r.clone_u(d, 5);
            r.u_assign("bitxor", "assign_ref", d, 5, |x, y| *x ^= y);
        }
        14 => {
            let bit = rng.below((len as u64 + 1) * 64);
            let v = rng.chance(1, 2);
            let ex = format!("\"sc\":{},\"v\":{}", sc_list(&[bit.sc()]), v);
            r.u_mut("set_bit", "method", &ex, d, |x| x.set_bit(bit, v));
        }
        15 => {
            // clear the top bit(s): the value shrinks by whole digits
            let bits = r.g.u[d].bits();
            if bits > 0 {
                let ex = format!("\"sc\":{},\"v\":false", sc_list(&[(bits - 1).sc()]));
                r.u_mut("set_bit", "method", &ex, d, |x| x.set_bit(bits - 1, false));
            }
        }
        16 => { r.u_mut("set_zero", "zero", "", d, |x| x.set_zero()); }
        17 => { r.u_mut("set_one", "one", "", d, |x| x.set_one()); }
        18 => {
            r.op("clone", "clone_from", &[u(s)], &[u(d)], "\"ty\":\"U\"", |g| {
                let src = g.u[s].roomy();
                g.u[d].clone_from(&src);
                Ret::none()
            });
        }
        19 => {
            // assign_from_slice with redundant high zero words
            let n = rng.below(2 * maxdigits as u64 / 3) as usize;
            let mut ws: Vec<u32> = (0..n).map(|_| if rng.chance(1, 3) { 0 } else { rng.next() as u32 }).collect();
            ws.extend(std::iter::repeat(0).take(rng.below(4) as usize));
            let ex = format!("\"words\":{}", words_json(&ws));
            r.op("new_u32", "U_assign_from_slice", &[], &[u(d)], &ex, |g| { g.u[d].assign_from_slice(&ws); Ret::none() });
        }
        20 => {
            let n = rng.below(maxdigits as u64 / 2) as usize;
            let dg = digits_p(rng, n, &[Pat::Random, Pat::Ones, Pat::Pow2, Pat::LowZeros]);
            load_u(r, d, &dg);
        }
        22 => {
            // scalar forms, wide scalars included, on whatever the register holds (zero included)
            let w128: u128 = *rng.pick(&[1u128 << 64, (1u128 << 64) + 1, u128::MAX, 3u128 << 100, 5, 0]);
            let w64: u64 = *rng.pick(&[0u64, 1, u64::MAX, 1 << 63, 10]);
            match rng.below(5) {
                0 => { r.op("mul", "assign_u128", &[u(d)], &[u(d)], &ex_sc("U", &[w128.sc()], "rc"), |g| { g.u[d] *= w128; Ret::none() }); }
                1 => { r.op("mul", "u128_val", &[u(d)], &[u(d)], &ex_sc("U", &[w128.sc()], "cr"), |g| { g.u[d] = w128 * g.u[d].roomy(); Ret::none() }); }
                2 => { r.op("add", "assign_u64", &[u(d)], &[u(d)], &ex_sc("U", &[w64.sc()], "rc"), |g| { g.u[d] += w64; Ret::none() }); }
                3 => { r.op("mul", "assign_u64", &[u(d)], &[u(d)], &ex_sc("U", &[w64.sc()], "rc"), |g| { g.u[d] *= w64; Ret::none() }); }
                _ => { r.op("add", "assign_u128", &[u(d)], &[u(d)], &ex_sc("U", &[w128.sc()], "rc"), |g| { g.u[d] += w128; Ret::none() }); }
            }
        }
        23 => {
            // checked division with whatever the other register holds as divisor (None exactly for zero)
            r.x("\"part\":\"q\"".into()).uu_opt("checked_div", "method", d, s, 5, |a, b| num_traits::CheckedDiv::checked_div(a, b));
            r.x("\"part\":\"q\"".into()).uu_opt("checked_div_euclid", "method", d, s, 5, |a, b| num_traits::CheckedEuclid::checked_div_euclid(a, b));
        }
        21 => {
            // constructors fed with redundant leading zero digits (they write registers u2 / i2)
            let radix = *rng.pick(&[2u32, 8, 10, 16, 32, 36, 64, 128, 256, 3, 255]);
            let nz = rng.below(140) as usize;
            let nd = rng.below(5) as usize;
            let mut be: Vec<u8> = vec![0; nz];
            be.extend((0..nd).map(|_| rng.below(radix.min(256) as u64) as u8));
            let le: Vec<u8> = be.iter().rev().cloned().collect();
            crate::drivers::text::from_radix_all(r, &le, radix, *rng.pick(&[Sign::Plus, Sign::Minus]));
            if radix <= 36 && !be.is_empty() {
                let txt: Vec<u8> = be.iter().map(|&x| if x < 10 { b'0' + x } else { b'a' + x - 10 }).collect();
                crate::drivers::text::parse_all(r, &txt, radix);
            }
            obs_u(r, 2, s);
            twin_u(r, 2);
            obs_i(r, 2, s);
            twin_i(r, 2);
        }
        _ => {
            // the result of an operation on other registers
            let o = (d + 2) % 4;
            r.uu("add", "ref_ref", s, o, d, |a, b| a + b);
        }
    }
    obs_u(r, d, s);
    twin_u(r, d);
}

fn step_i(r: &mut Rec, rng: &mut Rng, maxdigits: usize) {
    let d = rng.below(4) as usize;
    let mut s = rng.below(4) as usize;
    if s == d {
        s = (s + 1) % 4;
    }
    let len = r.g.i[d].magnitude().verif_raw().len();
    match rng.below(26) {
        0 | 1 => { r.i_assign("add", "assign_ref", d, s, |x, y| *x += y); }
        2 | 3 => { r.i_assign("sub", "assign_ref", d, s, |x, y| *x -= y); }
        4 => { if len + r.g.i[s].magnitude().verif_raw().len() <= maxdigits { r.i_assign("mul", "assign_ref", d, s, |x, y| *x *= y); } }
        5 => { r.x("\"part\":\"q\"".into()).i_assign("div", "assign_ref", d, s, |x, y| *x /= y); }
        6 => {
            let p = {
                let (a, b) = (&r.g.i[d], &r.g.i[s]);
                let sg = |x: &BigInt| match x.sign() { Sign::Minus => -1, Sign::NoSign => 0, Sign::Plus => 1 };
                format!("\"part\":\"r\",\"hint\":[{}]", crate::drivers::div::hint_q("trunc", sg(a), a.magnitude().verif_raw(), sg(b), b.magnitude().verif_raw()))
            };
            r.x(p).i_assign("rem", "assign_ref", d, s, |x, y| *x %= y);
        }
        7 => {
            let k = *rng.pick(&[1u32, 7, 63, 64, 65, 128, 200]);
            if len * 64 + k as usize <= maxdigits * 64 {
                r.op("shl", "assign_u32", &[i(d)], &[i(d)], &ex_sc("I", &[k.sc()], "rc"), |g| { g.i[d] <<= k; Ret::none() });
            }
        }
        8 | 9 => {
            let bits = r.g.i[d].bits() as i64;
            let k = *rng.pick(&[1i64, 7, 63, 64, 65, 128, bits - 1, bits, bits + 1, 1000]);
            let k = k.max(0) as u32;
            match rng.below(3) {
                0 => { r.op("shr", "assign_u32", &[i(d)], &[i(d)], &ex_sc("I", &[k.sc()], "rc"), |g| { g.i[d] >>= k; Ret::none() }); }
                1 => { let k8 = (k.min(255)) as u8; r.op("shr", "assign_u8", &[i(d)], &[i(d)], &ex_sc("I", &[k8.sc()], "rc"), |g| { g.i[d] >>= k8; Ret::none() }); }
                _ => { let k64 = k as i64; r.op("shr", "assign_refi64", &[i(d)], &[i(d)], &ex_sc("I", &[k64.sc()], "rc"), |g| { g.i[d] >>= &k64; Ret::none() }); }
            }
        }
        10 => { r.i_assign("bitand", "assign_ref", d, s, |x, y| *x &= y); }
        11 => { r.i_assign("bitor", "assign_ref", d, s, |x, y| *x |= y); }
        12 => { r.i_assign("bitxor", "assign_ref", d, s, |x, y| *x ^= y); }
        13 => {
            r.clone_i(d, 5);
            r.i_assign("sub", "assign_ref", d, 5, |x, y| *x -= y);
        }
        14 | 15 => {
            let bit = rng.below((len as u64 + 1) * 64);
            let v = rng.chance(1, 2);
            let ex = format!("\"sc\":{},\"v\":{}", sc_list(&[bit.sc()]), v);
            r.i_mut("set_bit", "method", &ex, d, |x| x.set_bit(bit, v));
        }
        16 => { r.i_mut("set_zero", "zero", "", d, |x| x.set_zero()); }
        17 => { r.i_mut("set_one", "one", "", d, |x| x.set_one()); }
        18 => {
            r.op("clone", "clone_from", &[i(s)], &[i(d)], "\"ty\":\"I\"", |g| {
                let src = g.i[s].roomy();
                g.i[d].clone_from(&src);
                Ret::none()
            });
        }
        19 => {
            let n = rng.below(2 * maxdigits as u64 / 3) as usize;
            let mut ws: Vec<u32> = (0..n).map(|_| if rng.chance(1, 3) { 0 } else { rng.next() as u32 }).collect();
            ws.extend(std::iter::repeat(0).take(rng.below(4) as usize));
            let sg = *rng.pick(&[Sign::Minus, Sign::NoSign, Sign::Plus]);
            let ex = format!("\"words\":{},\"sgn\":{}", words_json(&ws), match sg { Sign::Minus => -1, Sign::NoSign => 0, Sign::Plus => 1 });
            r.op("new_u32", "I_assign_from_slice", &[], &[i(d)], &ex, |g| { g.i[d].assign_from_slice(sg, &ws); Ret::none() });
        }
        20 => {
            let n = rng.below(maxdigits as u64 / 2) as usize;
            let dg = digits_p(rng, n, &[Pat::Random, Pat::Ones, Pat::Pow2, Pat::LowZeros]);
            let sg = *rng.pick(&[Sign::Minus, Sign::NoSign, Sign::Plus]);
            load_i(r, d, sg, &dg);
        }
        22 => {
            let w128: u128 = *rng.pick(&[1u128 << 64, (1u128 << 64) + 1, u128::MAX, 5, 0]);
            let wi128: i128 = *rng.pick(&[i128::MIN, -(1i128 << 64), 1i128 << 100, -1, 0]);
            match rng.below(4) {
                0 => { r.op("mul", "assign_u128", &[i(d)], &[i(d)], &ex_sc("I", &[w128.sc()], "rc"), |g| { g.i[d] *= w128; Ret::none() }); }
                1 => { r.op("mul", "i128_val", &[i(d)], &[i(d)], &ex_sc("I", &[wi128.sc()], "cr"), |g| { g.i[d] = wi128 * g.i[d].roomy(); Ret::none() }); }
                2 => { r.op("add", "assign_i128", &[i(d)], &[i(d)], &ex_sc("I", &[wi128.sc()], "rc"), |g| { g.i[d] += wi128; Ret::none() }); }
                _ => { r.op("sub", "assign_u128", &[i(d)], &[i(d)], &ex_sc("I", &[w128.sc()], "rc"), |g| { g.i[d] -= w128; Ret::none() }); }
            }
        }
        23 | 24 => {
            // the checked methods see whatever state the register is in (a mangled zero must still give None)
            r.x("\"part\":\"q\"".into()).ii_opt("checked_div", "method", s, d, 5, |a, b| a.checked_div(b));
            r.x("\"part\":\"q\"".into()).ii_opt("checked_div_euclid", "method", s, d, 5, |a, b| num_traits::CheckedEuclid::checked_div_euclid(a, b));
            r.q_i("is_zero", "zero", "", d, |x| Ret::none().b(num_traits::Zero::is_zero(x)));
        }
        _ => { r.i1("neg", "val", "", s, d, |a| -a.roomy()); }
    }
    obs_i(r, d, s);
    twin_i(r, d);
}

pub fn run(r: &mut Rec) {
    let sessions = if r.thorough { 600 } else { 48 };
    let steps = if r.thorough { 200 } else { 120 };
    for sidx in 0..sessions {
        if !r.case(&format!("session {}", sidx)) {
            continue;
        }
        let mut rng = r.case_rng();
        let maxdigits = *rng.pick(&[6usize, 12, 40]);
        for k in 0..4 {
            let n = rng.below(maxdigits as u64 / 2) as usize;
            let d = digits_p(&mut rng, n, &[Pat::Random, Pat::Ones, Pat::Pow2]);
            load_u(r, k, &d);
            let n = rng.below(maxdigits as u64 / 2) as usize;
            let d = digits_p(&mut rng, n, &[Pat::Random, Pat::Ones, Pat::Pow2]);
            let sg = *rng.pick(&[Sign::Minus, Sign::Plus]);
            load_i(r, k, sg, &d);
        }
        for _ in 0..steps {
            if rng.chance(1, 2) {
                step_u(r, &mut rng, maxdigits);
            } else {
                step_i(r, &mut rng, maxdigits);
            }
        }
        // closing pairwise observations
        for a in 0..4 {
            for b in 0..4 {
                obs_u(r, a, b);
                obs_i(r, a, b);
            }
        }
    }
}
