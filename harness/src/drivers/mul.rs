//! C02 driver: multiplication across every algorithm regime and size boundary.

use crate::gen::*;
use crate::rec::*;
use num_bigint::Sign;
use num_traits::CheckedMul;

fn u_form(r: &mut Rec, k: u64) {
    match k % 7 {
        0 => r.uu("mul", "ref_ref", 0, 1, 2, |a, b| a * b),
        1 => r.uu("mul", "val_ref", 0, 1, 2, |a, b| a.roomy() * b),
        2 => r.uu("mul", "ref_val", 0, 1, 2, |a, b| a * b.roomy()),
        3 => r.uu("mul", "val_val", 0, 1, 2, |a, b| a.roomy() * b.roomy()),
        4 => {
            r.clone_u(0, 2);
            r.u_assign("mul", "assign_ref", 2, 1, |d, s| *d *= s)
        }
        5 => {
            r.clone_u(1, 2);
            r.u_assign("mul", "assign_val_swapped", 2, 0, |d, s| *d *= s.roomy())
        }
        _ => r.uu_opt("checked_mul", "method", 0, 1, 2, |a, b| a.checked_mul(b)),
    };
}

fn i_form(r: &mut Rec, k: u64) {
    match k % 5 {
        0 => r.ii("mul", "ref_ref", 0, 1, 2, |a, b| a * b),
        1 => r.ii("mul", "val_ref", 0, 1, 2, |a, b| a.roomy() * b),
        2 => r.ii("mul", "val_val", 0, 1, 2, |a, b| a.roomy() * b.roomy()),
        3 => {
            r.clone_i(0, 2);
            r.i_assign("mul", "assign_ref", 2, 1, |d, s| *d *= s)
        }
        _ => {
            r.ii_opt("checked_mul", "trait", 0, 1, 2, |a, b| CheckedMul::checked_mul(a, b));
            r.ii_opt("checked_mul", "method", 0, 1, 2, |a, b| a.checked_mul(b))
        }
    };
}

const SIGNS: [(Sign, Sign); 4] = [(Sign::Plus, Sign::Plus), (Sign::Plus, Sign::Minus), (Sign::Minus, Sign::Plus), (Sign::Minus, Sign::Minus)];

fn scalar_forms(r: &mut Rec, rng: &mut Rng) {
    let s32: u32 = *rng.pick(&[0u32, 1, 2, 3, u32::MAX, 0x8000_0000, 0x10000]);
    let s64: u64 = *rng.pick(&[0u64, 1, 2, 1 << 32, 1 << 63, u64::MAX, u64::MAX - 1, 0xdead_beef_0000_0001]);
    let s128: u128 = *rng.pick(&[0u128, 1, 1 << 64, (1 << 64) + 1, u128::MAX, 1 << 127, u64::MAX as u128, 3 << 64]);
    let ex = |s: &Sc| ex_sc("U", &[s.clone()], "rc");
    r.op("mul", "ref_u32", &[u(0)], &[u(2)], &ex(&s32.sc()), |g| {
        g.u[2] = &g.u[0] * s32;
        Ret::none()
    });
    r.op("mul", "val_u64", &[u(0)], &[u(2)], &ex(&s64.sc()), |g| {
        g.u[2] = g.u[0].roomy() * s64;
        Ret::none()
    });
    r.op("mul", "u64_ref", &[u(0)], &[u(2)], &ex(&s64.sc()), |g| {
        g.u[2] = s64 * &g.u[0];
        Ret::none()
    });
    r.op("mul", "val_u128", &[u(0)], &[u(2)], &ex(&s128.sc()), |g| {
        g.u[2] = g.u[0].roomy() * s128;
        Ret::none()
    });
    r.clone_u(0, 2);
    r.op("mul", "assign_u128", &[u(2)], &[u(2)], &ex(&s128.sc()), |g| {
        g.u[2] *= s128;
        Ret::none()
    });
    r.clone_u(0, 2);
    r.op("mul", "assign_u64", &[u(2)], &[u(2)], &ex(&s64.sc()), |g| {
        g.u[2] *= s64;
        Ret::none()
    });
    let i64s: i64 = *rng.pick(&[0i64, -1, 1, i64::MIN, i64::MAX, -(1 << 32)]);
    let i128s: i128 = *rng.pick(&[0i128, -1, i128::MIN, i128::MAX, -(1 << 64), 1 << 64]);
    load_i_from_u(r, 0, *rng.pick(&[Sign::Plus, Sign::Minus]), 0);
    let exi = |s: &Sc| ex_sc("I", &[s.clone()], "rc");
    r.op("mul", "ref_i64", &[i(0)], &[i(2)], &exi(&i64s.sc()), |g| {
        g.i[2] = &g.i[0] * i64s;
        Ret::none()
    });
    r.op("mul", "i128_val", &[i(0)], &[i(2)], &exi(&i128s.sc()), |g| {
        g.i[2] = i128s * g.i[0].roomy();
        Ret::none()
    });
}

/// every scalar of interest against a bank of tiny and boundary big operands, value and assign forms:
/// fast paths keyed on a half of the scalar being zero or on a zero / one big operand are all met
fn scalar_matrix(r: &mut Rec) {
    let bigs: Vec<Vec<u64>> = vec![vec![], vec![1], vec![u64::MAX], vec![0, 1], vec![u64::MAX, u64::MAX], vec![0, 0, 1], vec![1, 0, u64::MAX]];
    let s64s = [0u64, 1, 2, 1 << 32, (1 << 32) - 1, 1 << 63, u64::MAX];
    let s128s = [0u128, 1, 1 << 64, (1 << 64) + 1, (1 << 64) - 1, 3 << 64, 1 << 100, 1 << 127, u128::MAX, u128::MAX << 64];
    let i128s = [0i128, -1, 1, i128::MIN, i128::MAX, -(1 << 64), 1 << 64, -(3 << 64), i64::MIN as i128];
    let ex = |s: &Sc| ex_sc("U", &[s.clone()], "rc");
    let exi = |s: &Sc| ex_sc("I", &[s.clone()], "rc");
    for (k, b) in bigs.iter().enumerate() {
        if !r.case(&format!("scalar matrix {}", k)) {
            continue;
        }
        load_u(r, 0, b);
        for &s in &s64s {
            r.op("mul", "ref_u64", &[u(0)], &[u(2)], &ex(&s.sc()), |g| {
                g.u[2] = &g.u[0] * s;
                Ret::none()
            });
            r.clone_u(0, 2);
            r.op("mul", "assign_u64", &[u(2)], &[u(2)], &ex(&s.sc()), |g| {
                g.u[2] *= s;
                Ret::none()
            });
        }
        for &s in &s128s {
            r.op("mul", "u128_ref", &[u(0)], &[u(2)], &ex(&s.sc()), |g| {
                g.u[2] = s * &g.u[0];
                Ret::none()
            });
            r.op("mul", "val_u128", &[u(0)], &[u(2)], &ex(&s.sc()), |g| {
                g.u[2] = g.u[0].roomy() * s;
                Ret::none()
            });
            r.clone_u(0, 2);
            r.op("mul", "assign_u128", &[u(2)], &[u(2)], &ex(&s.sc()), |g| {
                g.u[2] *= s;
                Ret::none()
            });
        }
        for sign in [Sign::Plus, Sign::Minus] {
            load_i_from_u(r, 0, sign, 0);
            for &s in &i128s {
                r.op("mul", "ref_i128", &[i(0)], &[i(2)], &exi(&s.sc()), |g| {
                    g.i[2] = &g.i[0] * s;
                    Ret::none()
                });
                r.clone_i(0, 2);
                r.op("mul", "assign_i128", &[i(2)], &[i(2)], &exi(&s.sc()), |g| {
                    g.i[2] *= s;
                    Ret::none()
                });
            }
            for &s in &[0i64, -1, i64::MIN, i64::MAX, -(1 << 32)] {
                r.clone_i(0, 2);
                r.op("mul", "assign_i64", &[i(2)], &[i(2)], &exi(&s.sc()), |g| {
                    g.i[2] *= s;
                    Ret::none()
                });
            }
        }
    }
}

fn one_case(r: &mut Rec, label: &str, a: &[u64], b: &[u64], nforms: u64) {
    if !r.case(label) {
        return;
    }
    let mut rng = r.case_rng();
    load_u(r, 0, a);
    load_u(r, 1, b);
    let f0 = rng.below(7);
    for k in 0..nforms.min(7) {
        u_form(r, f0 + k);
    }
    // one signed product (all four sign pairs for small operands)
    let s0 = rng.below(4) as usize;
    let nsign = if nforms >= 7 { 4 } else { 1 };
    for k in 0..nsign {
        let (sa, sb) = SIGNS[(s0 + k) % 4];
        load_i_from_u(r, 0, sa, 0);
        load_i_from_u(r, 1, sb, 1);
        i_form(r, rng.below(5));
    }
    if a.len() <= 40 && rng.chance(1, 2) {
        scalar_forms(r, &mut rng);
    }
}

fn square_case(r: &mut Rec, label: &str, a: &[u64]) {
    if !r.case(label) {
        return;
    }
    load_u(r, 0, a);
    r.op("mul", "ref_ref_square", &[u(0), u(0)], &[u(2)], "\"ty\":\"U\"", |g| {
        g.u[2] = &g.u[0] * &g.u[0];
        Ret::none()
    });
}

pub fn run(r: &mut Rec) {
    let mut rng = Rng(r.seed ^ 0xC02);
    scalar_matrix(r);
    // small shapes: every form, dense coverage of lengths 0..6 and the long-multiplication regime
    let small: Vec<usize> = if r.thorough { (0..=12).collect() } else { vec![0, 1, 2, 3, 5, 8] };
    for &la in &small {
        for &lb in &small {
            let pa = *rng.pick(&PATS);
            let pb = *rng.pick(&PATS);
            let a = digits(&mut rng, la, pa);
            let b = digits(&mut rng, lb, pb);
            one_case(r, &format!("small {}x{} {:?} {:?}", la, lb, pa, pb), &a, &b, 7);
        }
    }
    // Toom-3 operands assembled from thirds (all ones / zeros / B^k + 1 / ones with a few zero digits): the evaluation and
    // interpolation steps then add and subtract intermediate values of very different lengths, with all-ones runs and zero
    // digits exactly where a carry or a borrow has to travel
    {
        let third = |kind: u64, n: usize| -> Vec<u64> {
            match kind {
                0 => vec![u64::MAX; n],
                1 => vec![0u64; n],
                2 => {
                    let mut v = vec![0u64; n];
                    v[0] = 1;
                    v[(n * 3) / 5] = 1;
                    v
                }
                3 => {
                    let mut v = vec![u64::MAX; n];
                    for d in v.iter_mut().skip(n - 3) {
                        *d = 0;
                    }
                    v
                }
                _ => {
                    let mut v = vec![0u64; n];
                    for d in v.iter_mut().take(n / 2) {
                        *d = u64::MAX;
                    }
                    v
                }
            }
        };
        let dense = digits(&mut rng, 302, Pat::Random);
        for c in 0..125u64 {
            let with_dense = r.thorough || (c * 7 + r.seed) % 9 == 0;
            let (k0, k1, k2) = (c % 5, (c / 5) % 5, c / 25);
            if k2 == 1 {
                continue; // top third zero: a shorter operand, covered elsewhere
            }
            let mut x = third(k0, 101);
            x.extend(third(k1, 101));
            x.extend(third(k2, 98));
            if *x.last().unwrap() == 0 {
                let l = x.len();
                x[l - 1] = 1;
            }
            square_case(r, &format!("toom thirds {}{}{} squared", k0, k1, k2), &x);
            if with_dense {
                one_case(r, &format!("toom thirds {}{}{} x dense", k0, k1, k2), &x, &dense, 1);
            }
        }
    }
    // regime boundaries
    let shorter: Vec<usize> = if r.thorough {
        vec![16, 31, 32, 33, 34, 48, 63, 64, 65, 66, 96, 127, 128, 129, 192, 255, 256, 257, 258, 300, 384, 511, 512, 513]
    } else {
        vec![31, 32, 33, 34, 63, 64, 65, 66, 128, 129, 256, 257, 258]
    };
    let pats_big = [Pat::Ones, Pat::Random, Pat::OneDigit, Pat::LowZeros, Pat::Sparse, Pat::MaxM1, Pat::Landmark, Pat::HighOne];
    for &n in &shorter {
        let mut longers: Vec<usize> = vec![n, n + 1, 2 * n - 1, 2 * n, 2 * n + 1];
        if r.thorough {
            longers.push(3 * n);
            longers.push(n + n / 2);
            if n <= 66 {
                longers.push(17 * n);
            }
        } else if n > 130 {
            longers = vec![n, n + 1, 2 * n];
        } else if n <= 34 {
            longers.push(3 * n + 1);
        }
        for &m in &longers {
            let reps = if r.thorough {
                if n <= 129 { 4 } else { 2 }
            } else if n <= 66 {
                2
            } else {
                1
            };
            for rep in 0..reps {
                let (pa, pb) = if rep == 0 { (Pat::Ones, Pat::Ones) } else { (*rng.pick(&pats_big), *rng.pick(&pats_big)) };
                let a = digits(&mut rng, n, pa);
                let b = digits(&mut rng, m, pb);
                let (a, b) = if rng.chance(1, 2) { (a, b) } else { (b, a) };
                one_case(r, &format!("shape {}x{} {:?} {:?}", n, m, pa, pb), &a, &b, 1);
            }
        }
        // squares and B^k - 1
        let a = digits(&mut rng, n, Pat::Ones);
        square_case(r, &format!("square ones {}", n), &a);
        if r.thorough || n <= 129 {
            let a = digits(&mut rng, n, Pat::Random);
            square_case(r, &format!("square random {}", n), &a);
        }
    }
    // hierarchical zero / all-ones structure: extreme half-differences at several recursion levels
    let hsizes: Vec<usize> = if r.thorough { vec![33, 40, 64, 65, 66, 67, 68, 70, 96, 129, 130, 131, 140, 200, 257, 300] } else { vec![65, 66, 67, 70, 96, 130, 131] };
    for &n in &hsizes {
        let reps = if r.thorough { 10 } else { 5 };
        for rep in 0..reps {
            let a = hier(&mut rng, n);
            let m = if rep % 3 == 2 { n + 1 + rng.below(n as u64 / 2) as usize } else { n };
            let b = if rep % 3 == 0 { a.clone() } else { hier(&mut rng, m) };
            one_case(r, &format!("hier {}x{} rep {}", n, m, rep), &a, &b, 1);
        }
        // high half all ones over a zero / tiny low half, on both operands
        let mut a = vec![0u64; n];
        for k in n / 2..n {
            a[k] = u64::MAX;
        }
        let mut b = a.clone();
        one_case(r, &format!("highones {}", n), &a, &b, 1);
        b[0] = 1;
        a[n / 4] = u64::MAX - 1;
        one_case(r, &format!("highones tiny {}", n), &a, &b, 1);
    }
    // Toom-3 with the longer operand 1.25x .. 2x the shorter
    let tshapes: Vec<(usize, usize)> = if r.thorough {
        vec![(257, 320), (257, 385), (257, 400), (257, 450), (258, 500), (300, 450), (300, 599), (333, 500), (334, 500), (260, 910), (384, 700)]
    } else {
        vec![(257, 330), (257, 400), (258, 470)]
    };
    for &(n, m) in &tshapes {
        let a = digits(&mut rng, n, Pat::Random);
        let b = digits(&mut rng, m, Pat::Ones);
        one_case(r, &format!("toom ratio {}x{}", n, m), &a, &b, 1);
    }
    // isolated digits: a handful of small non-zero digits scattered over an otherwise zero operand (always digit 0 and the top
    // digit).  At every Karatsuba level the halves then have zero digits on top (the half-difference routine has to trim
    // both sides, to different lengths) and non-zero digits below them; dense, all-ones and power-of-two operands never do
    {
        let isizes: Vec<usize> = if r.thorough { vec![33, 34, 35, 40, 48, 64, 65, 66, 67, 68, 96, 129, 130, 131, 140, 260, 300] } else { vec![33, 34, 48, 65, 66, 67, 96, 130] };
        let iso = |rng: &mut Rng, n: usize| -> Vec<u64> {
            let mut v = vec![0u64; n];
            v[0] = 1 + rng.below(9);
            v[n - 1] = 1 + rng.below(9);
            let k = 1 + rng.below(4) as usize;
            for _ in 0..k {
                let pos = rng.below(n as u64) as usize;
                v[pos] = if rng.chance(1, 4) { u64::MAX } else { 1 + rng.below(9) };
            }
            v
        };
        for &n in &isizes {
            let reps = if r.thorough { 16 } else { 6 };
            for rep in 0..reps {
                let a = iso(&mut rng, n);
                let m = if rep % 3 == 2 { n + rng.below(4) as usize } else { n };
                let b = iso(&mut rng, m);
                one_case(r, &format!("isolated {}x{} rep {}", n, m, rep), &a, &b, 1);
                if rep % 3 == 0 {
                    square_case(r, &format!("isolated {} squared rep {}", n, rep), &a);
                }
            }
        }
    }
    // zero digits inside / at the low end of both operands (strip path, zero rows)
    for &n in &[33usize, 40, 70, 130] {
        if !r.thorough && n > 70 {
            continue;
        }
        let mut a = digits(&mut rng, n, Pat::Random);
        let mut b = digits(&mut rng, n + 3, Pat::Ones);
        for k in 0..n / 3 {
            a[k] = 0;
        }
        for k in 0..5 {
            b[k] = 0;
        }
        for k in n / 2..n / 2 + 4 {
            b[k] = 0;
        }
        one_case(r, &format!("zeros {}", n), &a, &b, 2);
    }
}
