//! C04 driver: the same integer obtained through every constructor.  For a bank of values that sit on the internal
//! boundaries (2^k, 2^k - 1, 2^k + 1 for every k up to 260, sparse and dense patterns) the value is built from text in
//! several radices (with and without leading zeros), from radix digit vectors, from bytes in both orders with padding,
//! from two's complement bytes with sign extension, from u32 words with high zeros, from primitives and from floats;
//! every result is judged by TLC for value AND canonical form, and the decimal twin is compared with each of them.

use crate::drivers::{bytes, conv, text};
use crate::gen::*;
use crate::rec::*;
use num_bigint::{BigUint, Sign};

fn digits_in_radix(v: &BigUint, radix: u32) -> Vec<u8> {
    // little-endian radix digits by repeated division on a u32 copy (independent of the library's converters)
    let mut words: Vec<u32> = v.verif_raw().iter().flat_map(|d| [*d as u32, (*d >> 32) as u32]).collect();
    while words.last() == Some(&0) {
        words.pop();
    }
    let mut out = vec![];
    while !words.is_empty() {
        let mut rem: u64 = 0;
        for w in words.iter_mut().rev() {
            let cur = (rem << 32) | *w as u64;
            *w = (cur / radix as u64) as u32;
            rem = cur % radix as u64;
        }
        out.push(rem as u8);
        while words.last() == Some(&0) {
            words.pop();
        }
    }
    out
}

fn text_of(le: &[u8], neg: bool, zeros: usize, upper: bool) -> Vec<u8> {
    let mut t: Vec<u8> = vec![];
    if neg {
        t.push(b'-');
    }
    t.extend(std::iter::repeat(b'0').take(zeros));
    if le.is_empty() {
        t.push(b'0');
    }
    for &d in le.iter().rev() {
        t.push(if d < 10 { b'0' + d } else if upper { b'A' + d - 10 } else { b'a' + d - 10 });
    }
    t
}

fn one_value(r: &mut Rec, label: &str, d: &[u64], k: usize) {
    if !r.case(label) {
        return;
    }
    load_u(r, 0, d);
    let v = r.g.u[0].clone();
    let sign = if k % 2 == 0 { Sign::Plus } else { Sign::Minus };
    let neg = sign == Sign::Minus && !d.is_empty();
    // text: radices whose digit width divides 64 (2, 4, 16), does not divide it (8, 32), and general ones
    let radices: &[u32] = if r.thorough { &[2, 3, 4, 7, 8, 10, 16, 32, 36] } else { &[2, 8, 10, 16, 32, 36] };
    for (n, &radix) in radices.iter().enumerate() {
        if !r.thorough && d.len() > 2 && (n + k) % 2 == 1 {
            continue;
        }
        let le = digits_in_radix(&v, radix);
        text::parse_all(r, &text_of(&le, neg, 0, false), radix);
        if (n + k) % 3 == 0 {
            text::parse_all(r, &text_of(&le, neg, 1 + (k % 23), true), radix);
        }
    }
    // digit vectors: widths 3, 5, 6, 7 bits straddle the native digit, 8 divides it, 255 / 10 are general
    let vrad: &[u32] = if r.thorough { &[2, 7, 8, 10, 32, 64, 100, 128, 255, 256] } else { &[8, 32, 64, 128, 255, 256] };
    for (n, &radix) in vrad.iter().enumerate() {
        if !r.thorough && d.len() > 2 && (n + k) % 2 == 0 {
            continue;
        }
        let mut le = digits_in_radix(&v, radix);
        text::from_radix_all(r, &le, radix, sign);
        le.extend(std::iter::repeat(0).take(1 + k % 9)); // redundant high zero digits
        text::from_radix_all(r, &le, radix, sign);
    }
    // bytes, with 0..9 high zero bytes; two's complement with sign extension; words with high zero words
    let mut b: Vec<u8> = d.iter().flat_map(|x| x.to_le_bytes()).collect();
    while b.last() == Some(&0) {
        b.pop();
    }
    bytes::imports_bytes(r, &b, sign);
    let mut padded = b.clone();
    padded.extend(std::iter::repeat(0).take(1 + k % 9));
    bytes::imports_bytes(r, &padded, sign);
    let mut ws: Vec<u32> = d.iter().flat_map(|x| [*x as u32, (*x >> 32) as u32]).collect();
    bytes::imports_words(r, &ws, sign);
    ws.extend(std::iter::repeat(0).take(1 + k % 5));
    bytes::imports_words(r, &ws, sign);
    // primitives and floats where the value fits
    if d.len() <= 2 {
        let x = d.first().copied().unwrap_or(0) as u128 | ((d.get(1).copied().unwrap_or(0) as u128) << 64);
        if x <= i128::MAX as u128 {
            conv::from_int(r, if neg { -(x as i128) } else { x as i128 }, Some(x));
        } else {
            conv::from_int(r, 0, Some(x));
        }
    }
    if let Some(f) = num_traits::ToPrimitive::to_f64(&v) {
        if f.is_finite() && <BigUint as num_traits::FromPrimitive>::from_f64(f) == Some(v.clone()) {
            conv::from_f64_all(r, if neg { -f } else { f });
        }
    }
    // observations against the decimal twin
    let dec = digits_in_radix(&v, 10);
    let t = text_of(&dec, false, 0, false);
    r.op("parse", "U_from_str_radix", &[], &[u(1)], &format!("\"ty\":\"U\",\"text\":{},\"radix\":10", bytes_json(&t)), |g| {
        let p = <BigUint as num_traits::Num>::from_str_radix(std::str::from_utf8(&t).unwrap(), 10);
        let some = p.is_ok();
        g.u[1] = p.unwrap_or_default();
        Ret::none().some(some)
    });
    crate::drivers::history::obs_u(r, 0, 1);
}

pub fn run(r: &mut Rec) {
    let mut rng = Rng(r.seed ^ 0x0419);
    let mut k = 0usize;
    one_value(r, "zero", &[], 0);
    let step = if r.thorough { 1 } else { 1 };
    let top = if r.thorough { 400 } else { 260 };
    for bit in (0..=top).step_by(step) {
        let mut p = vec![0u64; bit / 64 + 1];
        p[bit / 64] = 1u64 << (bit % 64);
        k += 1;
        one_value(r, &format!("2^{}", bit), &p, k);
        if r.thorough || bit % 64 >= 61 || bit % 64 <= 1 || bit % 8 == 7 || bit % 8 == 0 {
            // 2^bit - 1 (all ones) and 2^bit + 1
            let mut m = vec![u64::MAX; bit / 64];
            if bit % 64 != 0 {
                m.push((1u64 << (bit % 64)) - 1);
            }
            k += 1;
            one_value(r, &format!("2^{}-1", bit), &m, k);
            let mut q = p.clone();
            if bit > 0 {
                q[0] |= 1;
                k += 1;
                one_value(r, &format!("2^{}+1", bit), &q, k);
            }
        }
    }
    for len in [1usize, 2, 3, 4, 5, 7] {
        for pat in [Pat::Random, Pat::Landmark, Pat::LowZeros, Pat::HighOne] {
            k += 1;
            let d = digits(&mut rng, len, pat);
            one_value(r, &format!("pattern {} {:?}", len, pat), &d, k);
        }
    }
}
