//! C18 driver: sampling from scripted RNG streams; the trace carries the words consumed.
#![cfg(feature = "rand")]

use crate::gen::*;
use crate::rec::*;
use num_bigint::{BigInt, BigUint, RandBigInt, RandomBits, Sign};
use rand::distributions::uniform::{SampleUniform, UniformSampler};
use rand::distributions::{Distribution, Uniform};
use rand::{Rng as RandRng, RngCore};

/// scripted generator: the script first, then zeros for ever (an all-zero candidate is always acceptable,
/// so every sampler terminates); every consumed 32-bit word is logged
pub struct Script {
    script: Vec<u32>,
    pos: usize,
    pub used: Vec<u32>,
}
impl Script {
    pub fn new(script: Vec<u32>) -> Script {
        Script { script, pos: 0, used: vec![] }
    }
    fn word(&mut self) -> u32 {
        let w = self.script.get(self.pos).cloned().unwrap_or(0);
        self.pos += 1;
        self.used.push(w);
        w
    }
}
impl RngCore for Script {
    fn next_u32(&mut self) -> u32 {
        self.word()
    }
    fn next_u64(&mut self) -> u64 {
        let lo = self.word() as u64;
        let hi = self.word() as u64;
        lo | (hi << 32)
    }
    fn fill_bytes(&mut self, dest: &mut [u8]) {
        for chunk in dest.chunks_mut(4) {
            let w = self.word().to_le_bytes();
            chunk.copy_from_slice(&w[..chunk.len()]);
        }
    }
    fn try_fill_bytes(&mut self, dest: &mut [u8]) -> Result<(), rand::Error> {
        self.fill_bytes(dest);
        Ok(())
    }
}

fn streams(rng: &mut crate::rec::Rng, words_per_candidate: usize) -> Vec<(String, Vec<u32>)> {
    let w = words_per_candidate.max(1);
    let mut out: Vec<(String, Vec<u32>)> = vec![];
    out.push(("zeros".into(), vec![]));
    out.push(("ones".into(), vec![u32::MAX; 3 * w + 2]));
    out.push(("counter".into(), (1..=(4 * w as u32 + 4)).collect()));
    out.push(("splitmix".into(), (0..6 * w + 6).map(|_| rng.next() as u32).collect()));
    // reject k times (all-ones candidates) then a random candidate
    for k in 1..=3usize {
        let mut s = vec![u32::MAX; k * w];
        s.extend((0..w).map(|_| rng.next() as u32 >> 1));
        s.push(rng.next() as u32);
        out.push((format!("reject{}", k), s));
    }
    out.push(("highbit".into(), (0..4 * w + 2).map(|_| 0x8000_0000).collect()));
    out.push(("lowbit".into(), (0..4 * w + 2).map(|_| 1).collect()));
    out
}

/// scripts whose candidates are built from the bound itself: the bound, its neighbours, and the bound with one 64-bit
/// digit raised and another lowered (the most significant differing digit decides, whatever the lower ones say); every
/// script ends in zero words so that the sampler always terminates
fn near_bound_streams(b: &BigUint) -> Vec<(String, Vec<u32>)> {
    let bits = b.bits();
    if bits < 65 {
        return vec![];
    }
    let w = ((bits + 31) / 32) as usize;
    let rem = (bits % 32) as u32;
    let enc = |c: &BigUint| -> Vec<u32> {
        // the words gen_biguint(bits) must read to produce c (< 2^bits): little-endian, top word shifted up
        let mut ws = c.to_u32_digits();
        ws.resize(w, 0);
        if rem != 0 {
            ws[w - 1] <<= 32 - rem;
        }
        ws
    };
    let one = BigUint::from(1u8);
    let lim = &one << bits;
    let nd = ((bits + 63) / 64) as usize;
    let mut cands: Vec<(String, BigUint, BigUint)> = vec![];   // (name, rejected-or-accepted first candidate, second candidate)
    for i in 0..nd {
        for j in 0..nd {
            if i == j {
                continue;
            }
            // digit i raised by one, digit j lowered by one
            let up = &one << (64 * i);
            let down = &one << (64 * j);
            if b >= &down {
                let c = b + &up - &down;
                if c < lim {
                    cands.push((format!("near_up{}_down{}", i, j), c, b - &one));
                }
            }
        }
    }
    cands.push(("near_eq".into(), b.clone(), b - &one));
    cands.push(("near_above".into(), (b + &one) % &lim, b >> 1u32));
    let mut out = vec![];
    for (name, c1, c2) in cands {
        let mut s = enc(&c1);
        s.extend(enc(&c2));
        s.extend(std::iter::repeat(0).take(2 * w + 2));
        out.push((name, s));
    }
    out
}

fn used_json(s: &Script) -> String {
    words_json(&s.used)
}

pub fn run(r: &mut Rec) {
    let mut rng = crate::rec::Rng(r.seed ^ 0xC18);
    // bit sizes
    let mut sizes: Vec<u64> = (0..=(if r.thorough { 130 } else { 70 })).collect();
    sizes.extend_from_slice(&[95, 96, 97, 127, 128, 129, 159, 160, 161, 191, 192, 193, 255, 256, 257, 320, 511, 512, 513, 1000]);
    for &n in &sizes {
        if !r.case(&format!("bits {}", n)) {
            continue;
        }
        let mut rg = r.case_rng();
        for (name, script) in streams(&mut rg, (n as usize + 31) / 32) {
            let ex = format!("\"n\":{}", n);
            r.op("gen_biguint", &name, &[], &[u(2)], &ex, |g| {
                let mut s = Script::new(script.clone());
                g.u[2] = s.gen_biguint(n);
                Ret::none().raw("words", &used_json(&s))
            });
            r.op("gen_bigint", &name, &[], &[i(2)], &ex, |g| {
                let mut s = Script::new(script.clone());
                g.i[2] = s.gen_bigint(n);
                Ret::none().raw("words", &used_json(&s))
            });
            if rg.chance(1, 3) {
                r.op("gen_biguint", &format!("randombits_{}", name), &[], &[u(2)], &ex, |g| {
                    let mut s = Script::new(script.clone());
                    g.u[2] = RandomBits::new(n).sample(&mut s);
                    Ret::none().raw("words", &used_json(&s))
                });
                r.op("gen_bigint", &format!("randombits_{}", name), &[], &[i(2)], &ex, |g| {
                    let mut s = Script::new(script.clone());
                    g.i[2] = RandomBits::new(n).sample(&mut s);
                    Ret::none().raw("words", &used_json(&s))
                });
            }
        }
    }
    // bounds: 1, powers of two, 2^k +- 1, multi-digit
    let one = BigUint::from(1u8);
    let mut bounds: Vec<BigUint> = vec![BigUint::default(), one.clone(), BigUint::from(2u8), BigUint::from(3u8), BigUint::from(10u8), BigUint::from(255u8)];
    for k in [8u32, 31, 32, 33, 63, 64, 65, 96, 127, 128, 129, 200] {
        let p = &one << k;
        bounds.push(p.clone());
        bounds.push(&p - 1u32);
        bounds.push(&p + 1u32);
    }
    for len in [1usize, 2, 3, 5] {
        bounds.push(BigUint::from_bytes_le(&le_bytes(&digits(&mut rng, len, Pat::Random))));
    }
    // multi-digit bounds with small, middling and full digits in every position
    bounds.push(BigUint::from_bytes_le(&le_bytes(&[9, 7, 5])));
    bounds.push(BigUint::from_bytes_le(&le_bytes(&[u64::MAX - 3, 1, 1 << 40, 3])));
    bounds.push(BigUint::from_bytes_le(&le_bytes(&[5, u64::MAX, 0, 1 << 63])));
    for (k, b) in bounds.iter().enumerate() {
        if !r.case(&format!("bound {}", k)) {
            continue;
        }
        let mut rg = r.case_rng();
        let bd = b.verif_raw().to_vec();
        load_u(r, 1, &bd);
        let mut all = streams(&mut rg, (b.bits() as usize + 31) / 32);
        all.extend(near_bound_streams(b));
        for (name, script) in all {
            r.op("gen_biguint_below", &name, &[u(1)], &[u(2)], "", |g| {
                let mut s = Script::new(script.clone());
                g.u[2] = s.gen_biguint_below(&g.u[1]);
                Ret::none().raw("words", &used_json(&s))
            });
        }
    }
    // ranges: width 1, powers of two, negative, zero-crossing, lbound = 0 and ubound = 0, empty and inverted
    let mut ranges: Vec<(BigInt, BigInt)> = vec![];
    let b = |v: i64| BigInt::from(v);
    for (lo, hi) in [(0i64, 1i64), (0, 2), (5, 6), (-1, 0), (-2, 0), (-7, 0), (-100, 0), (-1, 1), (-5, 7), (-256, -255), (-300, -100), (3, 3), (4, 3), (0, 0), (-2, -2), (-1, -3), (0, -5), (7, 0), (0, -1), (1, 0), (5, -5),
                     (0, 255), (0, 256), (0, 257), (-255, 0), (-256, 0), (-257, 0), (1, 1 << 40)] {
        ranges.push((b(lo), b(hi)));
    }
    let big = BigInt::from(1u8) << 130u32;
    ranges.push((-&big, BigInt::from(0)));
    ranges.push((BigInt::from(0), big.clone()));
    ranges.push((-&big, big.clone()));
    ranges.push((&big - 1u32, &big + 5u32));
    ranges.push((-&big - 1u32, -&big + 1u32));
    ranges.push((-BigInt::from(u64::MAX), BigInt::from(0)));
    for (k, (lo, hi)) in ranges.iter().enumerate() {
        if !r.case(&format!("range {}", k)) {
            continue;
        }
        let mut rg = r.case_rng();
        load_i(r, 0, lo.sign(), &lo.magnitude().verif_raw().to_vec());
        load_i(r, 1, hi.sign(), &hi.magnitude().verif_raw().to_vec());
        let nonneg = lo.sign() != Sign::Minus && hi.sign() != Sign::Minus;
        if nonneg {
            load_u(r, 0, &lo.magnitude().verif_raw().to_vec());
            load_u(r, 1, &hi.magnitude().verif_raw().to_vec());
        }
        let width_words = ((hi - lo).bits() as usize + 32) / 32;
        for (name, script) in streams(&mut rg, width_words) {
            r.op("gen_range", &format!("I_method_{}", name), &[i(0), i(1)], &[i(2)], "\"incl\":false", |g| {
                let mut s = Script::new(script.clone());
                g.i[2] = s.gen_bigint_range(&g.i[0], &g.i[1]);
                Ret::none().raw("words", &used_json(&s))
            });
            r.op("gen_range", &format!("I_uniform_new_{}", name), &[i(0), i(1)], &[i(2)], "\"incl\":false", |g| {
                let mut s = Script::new(script.clone());
                g.i[2] = Uniform::new(&g.i[0], &g.i[1]).sample(&mut s);
                Ret::none().raw("words", &used_json(&s))
            });
            r.op("gen_range", &format!("I_uniform_inclusive_{}", name), &[i(0), i(1)], &[i(2)], "\"incl\":true", |g| {
                let mut s = Script::new(script.clone());
                g.i[2] = Uniform::new_inclusive(&g.i[0], &g.i[1]).sample(&mut s);
                Ret::none().raw("words", &used_json(&s))
            });
            r.op("gen_range", &format!("I_sample_single_{}", name), &[i(0), i(1)], &[i(2)], "\"incl\":false", |g| {
                let mut s = Script::new(script.clone());
                g.i[2] = <BigInt as SampleUniform>::Sampler::sample_single(&g.i[0], &g.i[1], &mut s);
                Ret::none().raw("words", &used_json(&s))
            });
            r.op("gen_range", &format!("I_gen_range_{}", name), &[i(0), i(1)], &[i(2)], "\"incl\":false", |g| {
                let mut s = Script::new(script.clone());
                g.i[2] = s.gen_range(g.i[0].clone()..g.i[1].clone());
                Ret::none().raw("words", &used_json(&s))
            });
            if nonneg {
                r.op("gen_range", &format!("U_method_{}", name), &[u(0), u(1)], &[u(2)], "\"incl\":false", |g| {
                    let mut s = Script::new(script.clone());
                    g.u[2] = s.gen_biguint_range(&g.u[0], &g.u[1]);
                    Ret::none().raw("words", &used_json(&s))
                });
                r.op("gen_range", &format!("U_uniform_new_{}", name), &[u(0), u(1)], &[u(2)], "\"incl\":false", |g| {
                    let mut s = Script::new(script.clone());
                    g.u[2] = Uniform::new(&g.u[0], &g.u[1]).sample(&mut s);
                    Ret::none().raw("words", &used_json(&s))
                });
                r.op("gen_range", &format!("U_uniform_inclusive_{}", name), &[u(0), u(1)], &[u(2)], "\"incl\":true", |g| {
                    let mut s = Script::new(script.clone());
                    g.u[2] = Uniform::new_inclusive(&g.u[0], &g.u[1]).sample(&mut s);
                    Ret::none().raw("words", &used_json(&s))
                });
                r.op("gen_range", &format!("U_gen_range_{}", name), &[u(0), u(1)], &[u(2)], "\"incl\":false", |g| {
                    let mut s = Script::new(script.clone());
                    g.u[2] = s.gen_range(g.u[0].clone()..g.u[1].clone());
                    Ret::none().raw("words", &used_json(&s))
                });
                r.op("gen_range", &format!("U_sample_single_{}", name), &[u(0), u(1)], &[u(2)], "\"incl\":false", |g| {
                    let mut s = Script::new(script.clone());
                    g.u[2] = <BigUint as SampleUniform>::Sampler::sample_single(&g.u[0], &g.u[1], &mut s);
                    Ret::none().raw("words", &used_json(&s))
                });
                r.op("gen_range", &format!("U_gen_range_incl_{}", name), &[u(0), u(1)], &[u(2)], "\"incl\":true", |g| {
                    let mut s = Script::new(script.clone());
                    g.u[2] = s.gen_range(g.u[0].clone()..=g.u[1].clone());
                    Ret::none().raw("words", &used_json(&s))
                });
            }
        }
    }
}
