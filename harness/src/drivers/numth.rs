//! Drivers for C11 (roots), C12 (pow), C13 (gcd family), C19 (sign and identity helpers).

use crate::gen::*;
use crate::hint;
use crate::rec::*;
use num_bigint::{BigInt, BigUint, Sign};
use num_integer::{Integer, Roots};
use num_traits::{One, Pow, Signed, Zero};

fn sg(s: Sign) -> i32 {
    match s {
        Sign::Minus => -1,
        Sign::NoSign => 0,
        Sign::Plus => 1,
    }
}
fn zj_u(x: &BigUint) -> hint::Z {
    hint::z_norm(1, hint::from_u64s(x.verif_raw()))
}
fn zj_i(x: &BigInt) -> hint::Z {
    hint::z_norm(sg(x.sign()), hint::from_u64s(x.magnitude().verif_raw()))
}

// ------------------------------------------------------------------ C11 roots
fn roots_on(r: &mut Rec, ns: &[u32]) {
    r.u1("sqrt", "method", "\"n\":2", 0, 2, |a| a.sqrt());
    r.u1("cbrt", "method", "\"n\":3", 0, 2, |a| a.cbrt());
    r.i1("sqrt", "method", "\"n\":2", 0, 2, |a| a.sqrt());
    r.i1("cbrt", "method", "\"n\":3", 0, 2, |a| a.cbrt());
    r.u1("sqrt", "roots_trait", "\"n\":2", 0, 2, |a| Roots::sqrt(a));
    r.i1("cbrt", "roots_trait", "\"n\":3", 0, 2, |a| Roots::cbrt(a));
    r.i1("sqrt", "roots_trait", "\"n\":2", 0, 2, |a| Roots::sqrt(a));
    r.u1("cbrt", "roots_trait", "\"n\":3", 0, 2, |a| Roots::cbrt(a));
    for (k, &n) in ns.iter().enumerate() {
        let ex = format!("\"sc\":{}", sc_list(&[n.sc()]));
        r.u1("nth_root", "method", &ex, 0, 2, |a| a.nth_root(n));
        r.i1("nth_root", "method", &ex, 0, 2, |a| a.nth_root(n));
        if k % 2 == 0 {
            r.u1("nth_root", "roots_trait", &ex, 0, 2, |a| Roots::nth_root(a, n));
            r.i1("nth_root", "roots_trait", &ex, 0, 2, |a| Roots::nth_root(a, n));
        }
    }
}

fn root_case(r: &mut Rec, label: &str, x: &BigUint, ns: &[u32]) {
    if !r.case(label) {
        return;
    }
    let d = x.verif_raw().to_vec();
    load_u(r, 0, &d);
    load_i_from_u(r, 0, Sign::Plus, 0);
    roots_on(r, ns);
    load_i_from_u(r, 0, Sign::Minus, 0);
    // negative: only the BigInt calls matter, but the unsigned ones are cheap
    r.i1("sqrt", "method", "\"n\":2", 0, 2, |a| a.sqrt());
    r.i1("cbrt", "method", "\"n\":3", 0, 2, |a| a.cbrt());
    for &n in ns {
        let ex = format!("\"sc\":{}", sc_list(&[n.sc()]));
        r.i1("nth_root", "method", &ex, 0, 2, |a| a.nth_root(n));
    }
}

pub fn run_roots(r: &mut Rec) {
    let mut rng = Rng(r.seed ^ 0xC11);
    let one = BigUint::one();
    let ns_small: Vec<u32> = vec![0, 1, 2, 3, 4, 5, 7];
    for v in [0u64, 1, 2, 3, 4, 7, 8, 9, 15, 16, 26, 27, 28, 63, 64, 65, 80, 81, 255, 256, 1 << 32, (1 << 32) - 1, u64::MAX, u64::MAX - 1, 1 << 63] {
        root_case(r, &format!("u64 {}", v), &BigUint::from(v), &[0, 1, 2, 3, 4, 5, 7, 63, 64, 65, u32::MAX]);
    }
    // perfect powers r^n and r^n +- 1 at several sizes (below 2^64, below 2^1024, beyond)
    let bases: Vec<BigUint> = {
        let mut v = vec![BigUint::from(2u8), BigUint::from(3u8), BigUint::from(10u8), BigUint::from(u32::MAX), BigUint::from(u64::MAX), &one << 64u32, (&one << 64u32) + 1u32];
        v.push(BigUint::from_bytes_le(&le_bytes(&digits(&mut rng, 2, Pat::Random))));
        v.push(BigUint::from_bytes_le(&le_bytes(&digits(&mut rng, 3, Pat::Ones))));
        v.push(BigUint::from_bytes_le(&le_bytes(&digits(&mut rng, 5, Pat::Random))));
        if r.thorough {
            v.push(BigUint::from_bytes_le(&le_bytes(&digits(&mut rng, 9, Pat::Random))));
            v.push(BigUint::from_bytes_le(&le_bytes(&digits(&mut rng, 17, Pat::Landmark))));
        }
        v
    };
    for (bi, b) in bases.iter().enumerate() {
        for n in [2u32, 3, 4, 5, 7] {
            if (b.bits() * n as u64) > (if r.thorough { 6000 } else { 3500 }) {
                continue;
            }
            let p = Pow::pow(b, n);
            for (nm, v) in [("", p.clone()), ("-1", &p - 1u32), ("+1", &p + 1u32)] {
                root_case(r, &format!("base#{}^{}{}", bi, n, nm), &v, &[n, 2, 3, n + 1]);
            }
        }
    }
    // roots whose fixpoint iteration raises a long candidate to the power n - 1: the multiplications inside run through the
    // Toom-3 regime with factors of different lengths (s x s^2, s^2 x s^4, ...)
    {
        let mut cases: Vec<(usize, u32)> = vec![(90, 8)];
        if r.thorough {
            cases.extend([(257, 4), (150, 7), (60, 13)]);
        }
        for (len, n) in cases {
            let mut d = digits(&mut rng, len, Pat::Random);
            d[len - 1] &= 0xffff_ffff;           // top digit below 2^32: s^2 has 2 len - 1 digits
            d[len - 1] |= 1;
            let root = BigUint::from_bytes_le(&le_bytes(&d));
            let p = Pow::pow(&root, n);
            for (nm, v) in [("+ r", &p + &root), ("- 1", &p - 1u32)] {
                if !r.case(&format!("long root {} digits ^{} {}", len, n, nm)) {
                    continue;
                }
                // one call per value: the specification has to raise two 90-digit candidates to the n-th power to judge it
                load_u(r, 0, &v.verif_raw().to_vec());
                let ex = format!("\"sc\":{}", sc_list(&[n.sc()]));
                r.u1("nth_root", "method", &ex, 0, 2, |a| a.nth_root(n));
            }
        }
    }
    // a small odd value shifted left: few significant bits (exact in f64), long zero tails, the true root often within a hair
    // of the next integer - every shift from just below 2^64 to beyond the 53-bit window of a double's square root
    for (mi, m) in [3u64, 5, 7, 11, 0x1f_ffff, ((1 << 26) + 1) * ((1 << 26) + 1) - 1].into_iter().enumerate() {
        for k in (58u32..=112).step_by(if r.thorough { 1 } else { 2 }) {
            let v = BigUint::from(m) << (k + (mi as u32 % 2));
            root_case(r, &format!("small {} << {}", m, k), &v, &[2, 3]);
        }
    }
    // bit lengths around 64, 128, 1024 (f64 guess finite up to 2^1024) and beyond (scaled recursive path)
    for bits in [63u32, 64, 65, 127, 128, 129, 511, 1000, 1023, 1024, 1025, 1026, 1100, 2047, 2048, 2049, 3000, 4097] {
        if !r.thorough && bits > 2100 {
            continue;
        }
        for pat in 0..3 {
            let v: BigUint = match pat {
                0 => &one << bits,
                1 => (&one << bits) - 1u32,
                _ => {
                    let d = digits(&mut rng, (bits as usize + 63) / 64, Pat::Random);
                    BigUint::from_bytes_le(&le_bytes(&d)) >> ((64 - bits % 64) % 64)
                }
            };
            root_case(r, &format!("bits {} pat {}", bits, pat), &v, &[2, 3, 5, 7, 64, bits, bits + 1, bits.saturating_sub(1).max(1), u32::MAX]);
        }
    }
    let _ = ns_small;
}

// ------------------------------------------------------------------ C12 pow
fn pow_forms(r: &mut Rec, e: u128, k: u64) {
    macro_rules! pw {
        ($t:ident, $n:expr) => {
            if let Ok(x) = <$t>::try_from(e) {
                let ex = format!("\"sc\":{}", sc_list(&[x.sc()]));
                if e < 4 || e % 32 == 31 || e > 1 << 40 {
                    // every form of both types on the smallest, some middle and the astronomical exponents
                    r.u1("pow", concat!("val_", stringify!($t)), &ex, 0, 2, |a| Pow::pow(a.clone(), x));
                    r.u1("pow", concat!("ref_", stringify!($t)), &ex, 0, 2, |a| Pow::pow(a, x));
                    r.u1("pow", concat!("val_ref", stringify!($t)), &ex, 0, 2, |a| Pow::pow(a.clone(), &x));
                    r.u1("pow", concat!("ref_ref", stringify!($t)), &ex, 0, 2, |a| Pow::pow(a, &x));
                    r.i1("pow", concat!("val_", stringify!($t)), &ex, 0, 2, |a| Pow::pow(a.clone(), x));
                    r.i1("pow", concat!("ref_", stringify!($t)), &ex, 0, 2, |a| Pow::pow(a, x));
                    r.i1("pow", concat!("val_ref", stringify!($t)), &ex, 0, 2, |a| Pow::pow(a.clone(), &x));
                    r.i1("pow", concat!("ref_ref", stringify!($t)), &ex, 0, 2, |a| Pow::pow(a, &x));
                } else {
                match (k + $n) % 4 {
                    0 => {
                        r.u1("pow", concat!("val_", stringify!($t)), &ex, 0, 2, |a| Pow::pow(a.clone(), x));
                        r.i1("pow", concat!("ref_", stringify!($t)), &ex, 0, 2, |a| Pow::pow(a, x));
                    }
                    1 => {
                        r.u1("pow", concat!("ref_", stringify!($t)), &ex, 0, 2, |a| Pow::pow(a, x));
                        r.i1("pow", concat!("val_", stringify!($t)), &ex, 0, 2, |a| Pow::pow(a.clone(), x));
                    }
                    2 => {
                        r.u1("pow", concat!("val_ref", stringify!($t)), &ex, 0, 2, |a| Pow::pow(a.clone(), &x));
                        r.i1("pow", concat!("ref_ref", stringify!($t)), &ex, 0, 2, |a| Pow::pow(a, &x));
                    }
                    _ => {
                        r.u1("pow", concat!("ref_ref", stringify!($t)), &ex, 0, 2, |a| Pow::pow(a, &x));
                        r.i1("pow", concat!("val_ref", stringify!($t)), &ex, 0, 2, |a| Pow::pow(a.clone(), &x));
                    }
                }
                }
            }
        };
    }
    pw!(u8, 0);
    pw!(u16, 1);
    pw!(u32, 2);
    pw!(u64, 3);
    pw!(u128, 4);
    pw!(usize, 5);
    if let Ok(x) = u32::try_from(e) {
        let ex = format!("\"sc\":{}", sc_list(&[x.sc()]));
        r.u1("pow", "inherent_u32", &ex, 0, 2, |a| a.pow(x));
        r.i1("pow", "inherent_u32", &ex, 0, 2, |a| a.pow(x));
    }
}

fn pow_big_exp(r: &mut Rec) {
    // exponent held in u1 (BigUint exponent forms)
    r.op("pow_big", "val_ref", &[u(0), u(1)], &[u(2)], "\"ty\":\"U\"", |g| {
        g.u[2] = Pow::pow(g.u[0].clone(), &g.u[1]);
        Ret::none()
    });
    r.op("pow_big", "ref_ref", &[u(0), u(1)], &[u(2)], "\"ty\":\"U\"", |g| {
        g.u[2] = Pow::pow(&g.u[0], &g.u[1]);
        Ret::none()
    });
    r.op("pow_big", "val_val", &[u(0), u(1)], &[u(2)], "\"ty\":\"U\"", |g| {
        g.u[2] = Pow::pow(g.u[0].clone(), g.u[1].clone());
        Ret::none()
    });
    r.op("pow_big", "ref_val", &[u(0), u(1)], &[u(2)], "\"ty\":\"U\"", |g| {
        g.u[2] = Pow::pow(&g.u[0], g.u[1].clone());
        Ret::none()
    });
    r.op("pow_big", "I_val_ref", &[i(0), u(1)], &[i(2)], "\"ty\":\"I\"", |g| {
        g.i[2] = Pow::pow(g.i[0].clone(), &g.u[1]);
        Ret::none()
    });
    r.op("pow_big", "I_ref_ref", &[i(0), u(1)], &[i(2)], "\"ty\":\"I\"", |g| {
        g.i[2] = Pow::pow(&g.i[0], &g.u[1]);
        Ret::none()
    });
    r.op("pow_big", "I_val_val", &[i(0), u(1)], &[i(2)], "\"ty\":\"I\"", |g| {
        g.i[2] = Pow::pow(g.i[0].clone(), g.u[1].clone());
        Ret::none()
    });
    r.op("pow_big", "I_ref_val", &[i(0), u(1)], &[i(2)], "\"ty\":\"I\"", |g| {
        g.i[2] = Pow::pow(&g.i[0], g.u[1].clone());
        Ret::none()
    });
}

pub fn run_pow(r: &mut Rec) {
    let mut rng = Rng(r.seed ^ 0xC12);
    // small bases: exponents 0..300 and bit patterns
    let mut exps: Vec<u128> = (0..=(if r.thorough { 300 } else { 70 })).collect();
    exps.extend_from_slice(&[96, 100, 127, 128, 129, 192, 255, 256, 257, 300, 384, 511, 512, 513, 768, 1000, 1023, 1024]);
    for (bname, bd, sign) in [("0", vec![], Sign::NoSign), ("1", vec![1u64], Sign::Plus), ("-1", vec![1], Sign::Minus), ("2", vec![2], Sign::Plus),
                              ("-2", vec![2], Sign::Minus), ("3", vec![3], Sign::Minus), ("10", vec![10], Sign::Plus)] {
        for chunk in exps.chunks(12) {
            if !r.case(&format!("base {} exps {}..", bname, chunk[0])) {
                continue;
            }
            let mut rg = r.case_rng();
            load_u(r, 0, &bd);
            load_i_from_u(r, 0, sign, 0);
            for &e in chunk {
                pow_forms(r, e, rg.below(4));
            }
        }
    }
    // astronomically large primitive exponents are only defined in memory for bases 0 and +-1
    if r.case("huge primitive exponents") {
        for (bd, sign) in [(vec![], Sign::NoSign), (vec![1u64], Sign::Plus), (vec![1], Sign::Minus)] {
            load_u(r, 0, &bd);
            load_i_from_u(r, 0, sign, 0);
            for e in [u32::MAX as u128, u64::MAX as u128, (u64::MAX as u128) - 1, 1u128 << 32, 1u128 << 63, 1u128 << 64, (1u128 << 64) + 1, 3u128 << 64, 1u128 << 100,
                      u128::MAX, u128::MAX - 1, 1u128 << 127, 65536, 65537] {
                for k in 0..4 {
                    pow_forms(r, e, k);
                }
            }
        }
    }
    // one-digit and multi-digit bases with moderate exponents (result stays below ~150 digits)
    for len in [1usize, 2, 3, 5] {
        for rep in 0..(if r.thorough { 6 } else { 2 }) {
            let d = digits_p(&mut rng, len, &[Pat::Random, Pat::Ones, Pat::Pow2, Pat::MaxM1]);
            if !r.case(&format!("base len {} rep {}", len, rep)) {
                continue;
            }
            let mut rg = r.case_rng();
            load_u(r, 0, &d);
            load_i_from_u(r, 0, if rep % 2 == 0 { Sign::Minus } else { Sign::Plus }, 0);
            let emax = (if r.thorough { 220 } else { 120 } / len) as u128;
            for e in [0u128, 1, 2, 3, 4, 5, 6, 7, 8, 15, 16, 17, 31, 32, 33, emax - 1, emax] {
                if e <= emax {
                    pow_forms(r, e, rg.below(4));
                }
            }
        }
    }
    // unbalanced Toom-3 products inside the exponent loop: a four-digit base and exponents whose leading bits are 11..., so
    // that the accumulator (> 256 digits) meets a squared base between one and a half and two times as long
    for (name, d) in [("2^200+12345", vec![12345u64, 0, 0, 1 << 8]), ("random 4 digits", digits(&mut rng, 4, Pat::Random))] {
        for e in if r.thorough { vec![193u32, 213, 220, 235, 250] } else { vec![213, 235] } {
            if !r.case(&format!("unbalanced toom base {} ^{}", name, e)) {
                continue;
            }
            load_u(r, 0, &d);
            load_i_from_u(r, 0, if e % 2 == 1 { Sign::Minus } else { Sign::Plus }, 0);
            let ex = format!("\"sc\":{}", sc_list(&[e.sc()]));
            r.u1("pow", "ref_u32", &ex, 0, 2, |a| Pow::pow(a, e));
            r.i1("pow", "inherent_u32", &ex, 0, 2, |a| a.pow(e));
        }
    }
    // long and sparse bases: the squarings and the multiply steps of the exponent loop then run through the Karatsuba and
    // Toom-3 regimes with factors of very different length, with zero digits at the split points and with accumulators
    // that are not empty on entry
    {
        let mut cases: Vec<(String, Vec<u64>, Vec<u128>)> = vec![];
        // 2^6400 + m, a zero run ending exactly at the middle digit, alternating zero digits
        let mut b = vec![0u64; 101];
        b[0] = 0x1234_5678_9abc_def1;
        b[100] = 1;
        cases.push(("2^6400+m".into(), b, vec![2, 3, 5]));
        let mut b = digits(&mut rng, 130, Pat::Random);
        for d in b.iter_mut().take(65).skip(40) {
            *d = 0;
        }
        b[64] = 0;
        cases.push(("zero run to the middle".into(), b, vec![2, 3]));
        cases.push(("2^128+1".into(), vec![1, 0, 1], vec![64, 128, 129]));
        let mut b = vec![0u64; 70];
        for k in (0..70).step_by(2) {
            b[k] = u64::MAX - k as u64;
        }
        cases.push(("alternating zero digits".into(), b, vec![2, 3, 4]));
        // a Toom-3 sized base whose square has exactly twice its length: x^3 = x^2 * x multiplies 2n by n digits
        let mut b = digits(&mut rng, 260, Pat::Random);
        b[259] = u64::MAX - 5;
        cases.push(("260 digits".into(), b, if r.thorough { vec![3, 5] } else { vec![3] }));
        for (name, d, es) in cases {
            for e in es {
                if !r.case(&format!("long base {} ^{}", name, e)) {
                    continue;
                }
                load_u(r, 0, &d);
                load_i_from_u(r, 0, if e % 2 == 1 { Sign::Minus } else { Sign::Plus }, 0);
                let x = e as u32;
                let ex = format!("\"sc\":{}", sc_list(&[x.sc()]));
                r.u1("pow", "ref_u32", &ex, 0, 2, |a| Pow::pow(a, x));
                r.i1("pow", "inherent_u32", &ex, 0, 2, |a| a.pow(x));
            }
        }
    }
    // BigUint exponents: small ones for every base; at the u64 / u128 conversion edges only with base 0, +-1
    if r.case("biguint exponents small") {
        for (bd, sign) in [(vec![], Sign::NoSign), (vec![1u64], Sign::Minus), (vec![2], Sign::Minus), (vec![u64::MAX, 7], Sign::Plus)] {
            load_u(r, 0, &bd);
            load_i_from_u(r, 0, sign, 0);
            for e in [0u64, 1, 2, 3, 5, 8, 16, 31, 64, 65] {
                load_u(r, 1, &if e == 0 { vec![] } else { vec![e] });
                pow_big_exp(r);
            }
        }
    }
    if r.case("biguint exponents huge") {
        for (bd, sign) in [(vec![], Sign::NoSign), (vec![1u64], Sign::Plus), (vec![1], Sign::Minus)] {
            load_u(r, 0, &bd);
            load_i_from_u(r, 0, sign, 0);
            for e in [vec![u64::MAX], vec![0, 1], vec![1, 1], vec![u64::MAX, u64::MAX], vec![0, 0, 1], vec![1, 0, 1], vec![0, 0, 0, 2], vec![u64::MAX - 1, u64::MAX, 3]] {
                load_u(r, 1, &e);
                pow_big_exp(r);
            }
        }
    }
}

// ------------------------------------------------------------------ C13 gcd family
fn gcd_hints(a: &hint::Z, b: &hint::Z) -> String {
    let (g, x, y) = hint::ext_gcd(&a.1, &b.1);
    // cofactors and Bezout pair for the signed operands: a = g*ca, b = g*cb, a*x' + b*y' = g
    let (ca, cb) = if g.is_empty() { (vec![], vec![]) } else { (hint::divmod(&a.1, &g).0, hint::divmod(&b.1, &g).0) };
    let xs = hint::z_norm(x.0 * a.0, x.1.clone());
    let ys = hint::z_norm(y.0 * b.0, y.1.clone());
    format!(
        "\"hg\":{{\"g\":{},\"ca\":{},\"cb\":{},\"x\":{},\"y\":{}}}",
        hint::z_json(&hint::z_norm(1, g)),
        hint::z_json(&hint::z_norm(a.0, ca)),
        hint::z_json(&hint::z_norm(b.0, cb)),
        hint::z_json(&xs),
        hint::z_json(&ys)
    )
}
/// k with res = k * b for next/prev_multiple_of (from the library's result, re-checked by the spec)
fn mult_hint(res: &hint::Z, b: &hint::Z) -> String {
    if b.1.is_empty() {
        return "{\"s\":0,\"d\":[]}".into();
    }
    let (q, _) = hint::divmod(&res.1, &b.1);
    hint::z_json(&hint::z_norm(res.0 * b.0, q))
}

fn gcd_forms(r: &mut Rec) {
    let hu = gcd_hints(&zj_u(&r.g.u[0]), &zj_u(&r.g.u[1]));
    let hi = gcd_hints(&zj_i(&r.g.i[0]), &zj_i(&r.g.i[1]));
    r.x(hu.clone()).uu("gcd", "method", 0, 1, 2, |a, b| a.gcd(b));
    r.x(hu.clone()).uu("lcm", "method", 0, 1, 2, |a, b| a.lcm(b));
    r.x(hu.clone()).uu2("gcd_lcm", "method", 0, 1, 2, 3, |a, b| a.gcd_lcm(b));
    r.x(hi.clone()).ii("gcd", "method", 0, 1, 2, |a, b| a.gcd(b));
    r.x(hi.clone()).ii("lcm", "method", 0, 1, 2, |a, b| a.lcm(b));
    r.x(hi.clone()).ii2("gcd_lcm", "method", 0, 1, 2, 3, |a, b| a.gcd_lcm(b));
    r.op("extended_gcd", "method", &[i(0), i(1)], &[i(2), i(3), i(4)], &format!("\"ty\":\"I\",{}", hi), |g| {
        let e = g.i[0].extended_gcd(&g.i[1]);
        g.i[2] = e.gcd;
        g.i[3] = e.x;
        g.i[4] = e.y;
        Ret::none()
    });
    r.op("extended_gcd_lcm", "method", &[i(0), i(1)], &[i(2), i(3), i(4), i(5)], &format!("\"ty\":\"I\",{}", hi), |g| {
        let (e, l) = g.i[0].extended_gcd_lcm(&g.i[1]);
        g.i[2] = e.gcd;
        g.i[3] = e.x;
        g.i[4] = e.y;
        g.i[5] = l;
        Ret::none()
    });
    r.op("next_multiple_of", "method", &[u(0), u(1)], &[u(2)], "\"ty\":\"U\"", |g| {
        g.u[2] = g.u[0].next_multiple_of(&g.u[1]);
        Ret::none().raw("hk", &mult_hint(&zj_u(&g.u[2]), &zj_u(&g.u[1])))
    });
    r.op("prev_multiple_of", "method", &[u(0), u(1)], &[u(2)], "\"ty\":\"U\"", |g| {
        g.u[2] = g.u[0].prev_multiple_of(&g.u[1]);
        Ret::none().raw("hk", &mult_hint(&zj_u(&g.u[2]), &zj_u(&g.u[1])))
    });
    r.op("next_multiple_of", "method", &[i(0), i(1)], &[i(2)], "\"ty\":\"I\"", |g| {
        g.i[2] = g.i[0].next_multiple_of(&g.i[1]);
        Ret::none().raw("hk", &mult_hint(&zj_i(&g.i[2]), &zj_i(&g.i[1])))
    });
    r.op("prev_multiple_of", "method", &[i(0), i(1)], &[i(2)], "\"ty\":\"I\"", |g| {
        g.i[2] = g.i[0].prev_multiple_of(&g.i[1]);
        Ret::none().raw("hk", &mult_hint(&zj_i(&g.i[2]), &zj_i(&g.i[1])))
    });
    let p = {
        let (a, b) = (&r.g.u[0], &r.g.u[1]);
        format!("\"part\":\"r\",\"hint\":[{}]", crate::drivers::div::hint_q("trunc", if a.is_zero() { 0 } else { 1 }, a.verif_raw(), if b.is_zero() { 0 } else { 1 }, b.verif_raw()))
    };
    r.x(p.clone()).op("is_multiple_of", "integer_method", &[u(0), u(1)], &[], "\"ty\":\"U\"", |g| Ret::none().b(g.u[0].is_multiple_of(&g.u[1])));
    r.x(p).op("is_multiple_of", "divides", &[u(0), u(1)], &[], "\"ty\":\"U\"", |g| {
        // deprecated alias: a.divides(b) == a.is_multiple_of(b)
        #[allow(deprecated)]
        let v = g.u[0].divides(&g.u[1]);
        Ret::none().b(v)
    });
    let p = {
        let (a, b) = (&r.g.i[0], &r.g.i[1]);
        format!("\"part\":\"r\",\"hint\":[{}]", crate::drivers::div::hint_q("trunc", sg(a.sign()), a.magnitude().verif_raw(), sg(b.sign()), b.magnitude().verif_raw()))
    };
    r.x(p.clone()).op("is_multiple_of", "integer_method", &[i(0), i(1)], &[], "\"ty\":\"I\"", |g| Ret::none().b(g.i[0].is_multiple_of(&g.i[1])));
    r.x(p).op("is_multiple_of", "divides", &[i(0), i(1)], &[], "\"ty\":\"I\"", |g| {
        #[allow(deprecated)]
        let v = g.i[0].divides(&g.i[1]);
        Ret::none().b(v)
    });
    for k in 0..2 {
        r.q_u("is_even", "method", "", k, |a| Ret::none().b(a.is_even()));
        r.q_u("is_odd", "method", "", k, |a| Ret::none().b(a.is_odd()));
        r.q_i("is_even", "method", "", k, |a| Ret::none().b(a.is_even()));
        r.q_i("is_odd", "method", "", k, |a| Ret::none().b(a.is_odd()));
        r.clone_u(k, 2);
        r.u_mut("inc", "method", "", 2, |d| d.inc());
        r.clone_u(k, 2);
        r.u_mut("dec", "method", "", 2, |d| d.dec());
        r.clone_i(k, 2);
        r.i_mut("inc", "method", "", 2, |d| d.inc());
        r.clone_i(k, 2);
        r.i_mut("dec", "method", "", 2, |d| d.dec());
    }
}

fn gcd_case(r: &mut Rec, label: &str, a: &[u64], b: &[u64]) {
    if !r.case(label) {
        return;
    }
    load_u(r, 0, a);
    load_u(r, 1, b);
    for (k, (sa, sb)) in [(Sign::Plus, Sign::Plus), (Sign::Minus, Sign::Plus), (Sign::Plus, Sign::Minus), (Sign::Minus, Sign::Minus)].iter().enumerate() {
        load_i_from_u(r, 0, *sa, 0);
        load_i_from_u(r, 1, *sb, 1);
        if k == 0 || a.len() + b.len() <= 12 {
            gcd_forms(r);
        }
    }
}

fn from_n(p: &hint::N) -> Vec<u64> {
    p.chunks(2).map(|c| c[0] as u64 | ((*c.get(1).unwrap_or(&0) as u64) << 32)).collect()
}

pub fn run_gcd(r: &mut Rec) {
    let mut rng = Rng(r.seed ^ 0xC13);
    // small grid including zeros
    for a in [0u64, 1, 2, 3, 4, 6, 12, 18, 35, 64, 97, 100] {
        for b in [0u64, 1, 2, 4, 9, 12, 16, 35, 70, 128] {
            if !r.thorough && (a * 7 + b) % 3 == 1 {
                continue;
            }
            gcd_case(r, &format!("small {} {}", a, b), &if a == 0 { vec![] } else { vec![a] }, &if b == 0 { vec![] } else { vec![b] });
        }
    }
    // a long gcd with a large common power of two: g = odd * 2^s with s >= 64 and an odd part of several digits, against
    // small coprime cofactors (the final shift of Stein's algorithm moves a multi-digit value by whole digits)
    for (gi, olen) in [2usize, 3, 5].into_iter().enumerate() {
        for s in [64usize, 67, 128, 130, 191] {
            if !r.thorough && (gi + s) % 2 == 1 {
                continue;
            }
            let mut odd = digits(&mut rng, olen, Pat::Random);
            odd[0] |= 1;
            let mut g = vec![0u64; s / 64];
            g.extend_from_slice(&odd);
            let g = hint::mul(&hint::from_u64s(&g), &vec![1u32 << (s % 32)]);
            let g = if (s % 64) >= 32 { hint::mul(&g, &vec![0u32, 1]) } else { g };
            let a = from_n(&hint::mul(&g, &vec![3u32]));
            let b = from_n(&hint::mul(&g, &vec![5u32]));
            gcd_case(r, &format!("long gcd odd{} shift{}", olen, s), &a, &b);
        }
    }
    let n = if r.thorough { 400 } else { 90 };
    for k in 0..n {
        let la = 1 + rng.below(6) as usize;
        let lb = 1 + rng.below(6) as usize;
        let (x, y) = (digits_p(&mut rng, la, &[Pat::Random, Pat::Ones, Pat::Landmark]), digits_p(&mut rng, lb, &[Pat::Random, Pat::Pow2, Pat::Landmark]));
        let (nx, ny) = (hint::from_u64s(&x), hint::from_u64s(&y));
        let (a, b, label) = match k % 6 {
            0 => (x.clone(), y.clone(), "random"),
            1 => (x.clone(), x.clone(), "equal"),
            2 => (from_n(&hint::mul(&nx, &ny)), x.clone(), "divides"),
            3 => {
                // common power of two with different trailing zero counts spanning digits
                let (za, zb) = (rng.below(200) as usize, rng.below(200) as usize);
                let mut a = vec![0u64; za / 64];
                a.extend_from_slice(&x);
                let mut b = vec![0u64; zb / 64];
                b.extend_from_slice(&y);
                let a = from_n(&hint::mul(&hint::from_u64s(&a), &vec![1u32 << (za % 32)]));
                let b = from_n(&hint::mul(&hint::from_u64s(&b), &vec![1u32 << (zb % 32)]));
                (a, b, "pow2 common")
            }
            4 => {
                // common odd factor
                let c = digits(&mut rng, 2, Pat::Random);
                let nc = hint::from_u64s(&c);
                (from_n(&hint::mul(&nx, &nc)), from_n(&hint::mul(&ny, &nc)), "common factor")
            }
            _ => (x.clone(), vec![], "zero"),
        };
        gcd_case(r, &format!("{} {}", label, k), &a, &b);
        if k % 6 == 5 {
            gcd_case(r, &format!("zero lhs {}", k), &[], &x);
        }
    }
}

// ------------------------------------------------------------------ C19 sign, negation, identities
fn sign_forms(r: &mut Rec) {
    r.i1("neg", "val", "", 0, 2, |a| -a.clone());
    r.i1("neg", "ref", "", 0, 2, |a| -a);
    r.i1("abs", "signed", "", 0, 2, |a| a.abs());
    r.i1("signum", "signed", "", 0, 2, |a| a.signum());
    r.q_i("is_positive", "signed", "", 0, |a| Ret::none().b(a.is_positive()));
    r.q_i("is_negative", "signed", "", 0, |a| Ret::none().b(a.is_negative()));
    r.q_i("sign", "method", "", 0, |a| Ret::none().n(sg(a.sign()) as i64));
    r.op("magnitude", "method", &[i(0)], &[u(2)], "\"ty\":\"I\"", |g| {
        g.u[2] = g.i[0].magnitude().clone();
        Ret::none()
    });
    r.op("into_parts", "method", &[i(0)], &[u(2)], "\"ty\":\"I\"", |g| {
        let (s, m) = g.i[0].clone().into_parts();
        g.u[2] = m;
        Ret::none().n(sg(s) as i64)
    });
    r.op("to_biguint", "trait", &[i(0)], &[u(2)], "\"ty\":\"I\"", |g| {
        let v = num_bigint::ToBigUint::to_biguint(&g.i[0]);
        let some = v.is_some();
        g.u[2] = v.unwrap_or_default();
        Ret::none().some(some)
    });
    r.op("to_biguint", "inherent", &[i(0)], &[u(2)], "\"ty\":\"I\"", |g| {
        let v = g.i[0].to_biguint();
        let some = v.is_some();
        g.u[2] = v.unwrap_or_default();
        Ret::none().some(some)
    });
    r.op("to_bigint", "trait_on_biguint", &[u(0)], &[i(2)], "\"ty\":\"U\"", |g| {
        let v = num_bigint::ToBigInt::to_bigint(&g.u[0]);
        let some = v.is_some();
        g.i[2] = v.unwrap_or_default();
        Ret::none().some(some)
    });
    r.op("to_bigint", "trait_on_bigint", &[i(0)], &[i(2)], "\"ty\":\"I\"", |g| {
        let v = num_bigint::ToBigInt::to_bigint(&g.i[0]);
        let some = v.is_some();
        g.i[2] = v.unwrap_or_default();
        Ret::none().some(some)
    });
    r.op("to_biguint", "trait_on_biguint", &[u(0)], &[u(2)], "\"ty\":\"U\"", |g| {
        let v = num_bigint::ToBigUint::to_biguint(&g.u[0]);
        let some = v.is_some();
        g.u[2] = v.unwrap_or_default();
        Ret::none().some(some)
    });
    r.ii("abs_sub", "signed", 0, 1, 2, |a, b| a.abs_sub(b));
    r.ii("abs_sub", "signed", 1, 0, 2, |a, b| a.abs_sub(b));
    r.q_u("is_zero", "zero", "", 0, |a| Ret::none().b(a.is_zero()));
    r.q_i("is_zero", "zero", "", 0, |a| Ret::none().b(a.is_zero()));
    r.q_u("is_one", "one", "", 0, |a| Ret::none().b(a.is_one()));
    r.q_i("is_one", "one", "", 0, |a| Ret::none().b(a.is_one()));
    // set_zero / set_one on a register that held something larger (capacity kept)
    r.clone_u(0, 2);
    r.u_mut("set_zero", "zero", "", 2, |d| d.set_zero());
    r.clone_u(0, 2);
    r.u_mut("set_one", "one", "", 2, |d| d.set_one());
    r.clone_i(0, 2);
    r.i_mut("set_zero", "zero", "", 2, |d| d.set_zero());
    r.clone_i(0, 2);
    r.i_mut("set_one", "one", "", 2, |d| d.set_one());
    // from_biguint with every requested sign (including inconsistent ones)
    for s in [Sign::Minus, Sign::NoSign, Sign::Plus] {
        load_i_from_u(r, 2, s, 0);
    }
}

fn consts(r: &mut Rec) {
    r.op("const", "U_zero", &[], &[u(2)], "\"ty\":\"U\",\"n\":0", |g| { g.u[2] = BigUint::zero(); Ret::none() });
    r.op("const", "U_ZERO", &[], &[u(2)], "\"ty\":\"U\",\"n\":0", |g| { g.u[2] = BigUint::ZERO; Ret::none() });
    r.op("const", "U_default", &[], &[u(2)], "\"ty\":\"U\",\"n\":0", |g| { g.u[2] = BigUint::default(); Ret::none() });
    r.op("const", "U_one", &[], &[u(2)], "\"ty\":\"U\",\"n\":1", |g| { g.u[2] = BigUint::one(); Ret::none() });
    r.op("const", "I_zero", &[], &[i(2)], "\"ty\":\"I\",\"n\":0", |g| { g.i[2] = BigInt::zero(); Ret::none() });
    r.op("const", "I_ZERO", &[], &[i(2)], "\"ty\":\"I\",\"n\":0", |g| { g.i[2] = BigInt::ZERO; Ret::none() });
    r.op("const", "I_default", &[], &[i(2)], "\"ty\":\"I\",\"n\":0", |g| { g.i[2] = BigInt::default(); Ret::none() });
    r.op("const", "I_one", &[], &[i(2)], "\"ty\":\"I\",\"n\":1", |g| { g.i[2] = BigInt::one(); Ret::none() });
    // Sign algebra
    let signs = [Sign::Minus, Sign::NoSign, Sign::Plus];
    for a in signs {
        r.op("sign_neg", "neg", &[], &[], &format!("\"a\":{}", sg(a)), |_| Ret::none().n(sg(-a) as i64));
        for b in signs {
            r.op("sign_mul", "mul", &[], &[], &format!("\"a\":{},\"b\":{}", sg(a), sg(b)), |_| Ret::none().n(sg(a * b) as i64));
        }
    }
}

pub fn run_sign(r: &mut Rec) {
    let mut rng = Rng(r.seed ^ 0xC19);
    if r.case("constants") {
        consts(r);
    }
    let lens: Vec<usize> = if r.thorough { vec![0, 1, 2, 3, 5, 9, 20] } else { vec![0, 1, 2, 5] };
    for &la in &lens {
        for &lb in &lens {
            for (sa, sb) in [(Sign::Plus, Sign::Plus), (Sign::Minus, Sign::Plus), (Sign::Plus, Sign::Minus), (Sign::Minus, Sign::Minus)] {
                for rep in 0..3 {
                    let a = digits_p(&mut rng, la, &[Pat::Random, Pat::Ones, Pat::Pow2]);
                    // rep 1: equal magnitudes, rep 2: differ in the lowest digit only
                    let b = match rep {
                        0 => digits_p(&mut rng, lb, &[Pat::Random, Pat::Ones]),
                        1 => a.clone(),
                        _ => {
                            let mut b = a.clone();
                            if !b.is_empty() {
                                b[0] ^= 1;
                                if b[b.len() - 1] == 0 {
                                    b[0] = 2;
                                }
                            }
                            b
                        }
                    };
                    if rep > 0 && la != lb {
                        continue;
                    }
                    if !r.case(&format!("{}x{} {:?}{:?} rep{}", la, lb, sa, sb, rep)) {
                        continue;
                    }
                    // the register held a longer value before (in-place predecessor with larger capacity)
                    load_u(r, 0, &vec![u64::MAX; la + 6]);
                    load_u(r, 0, &a);
                    load_u(r, 1, &b);
                    load_i(r, 0, sa, &vec![7u64; la + 4]);
                    load_i_from_u(r, 0, sa, 0);
                    load_i_from_u(r, 1, sb, 1);
                    sign_forms(r);
                }
            }
        }
    }
    // the boundary bank: every ordered pair of magnitudes at the primitive edges with every sign pair (a shortcut through
    // i64 / i128 arithmetic is wrong exactly where a difference or a negation leaves the primitive's range)
    let bank: Vec<Vec<u64>> = vec![vec![], vec![1], vec![3], vec![(1 << 63) - 1], vec![1 << 63], vec![u64::MAX], vec![0, 1], vec![0, 1 << 62], vec![u64::MAX, (1 << 63) - 1],
                                   vec![0, 1 << 63], vec![1, 1 << 63], vec![u64::MAX, u64::MAX], vec![0, 0, 1]];
    for (ka, a) in bank.iter().enumerate() {
        for (kb, b) in bank.iter().enumerate() {
            if !r.thorough && (ka * 7 + kb * 3) % 4 != 0 && ka != kb {
                continue;
            }
            if !r.case(&format!("bank {} {}", ka, kb)) {
                continue;
            }
            load_u(r, 0, a);
            load_u(r, 1, b);
            for (sa, sb) in [(Sign::Plus, Sign::Plus), (Sign::Minus, Sign::Plus), (Sign::Plus, Sign::Minus), (Sign::Minus, Sign::Minus)] {
                load_i_from_u(r, 0, sa, 0);
                load_i_from_u(r, 1, sb, 1);
                r.ii("abs_sub", "signed", 0, 1, 2, |a, b| a.abs_sub(b));
                r.ii("abs_sub", "signed", 1, 0, 2, |a, b| a.abs_sub(b));
                crate::drivers::history::obs_i(r, 0, 1);
            }
        }
    }
    for v in [1u64, 2] {
        if r.case(&format!("unit {}", v)) {
            load_u(r, 0, &[v]);
            load_u(r, 1, &[1]);
            load_i_from_u(r, 0, Sign::Minus, 0);
            load_i_from_u(r, 1, Sign::Plus, 1);
            sign_forms(r);
            load_i_from_u(r, 0, Sign::Plus, 0);
            sign_forms(r);
        }
    }
}
