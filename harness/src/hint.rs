//! Untrusted witness computation with a tiny independent bignum (little-endian u32 digits).
//! Witnesses (quotients, cofactors ...) are logged as hints; the TLA+ specification
//! re-checks them by multiplication and comparison, so an error here can only make a check
//! fail, never pass wrongly.  Deliberately simple: bitwise shift-subtract division.

pub type N = Vec<u32>;

pub fn norm(a: &mut N) {
    while let Some(&0) = a.last() {
        a.pop();
    }
}
pub fn from_u64s(d: &[u64]) -> N {
    let mut out = Vec::with_capacity(d.len() * 2);
    for w in d {
        out.push(*w as u32);
        out.push((*w >> 32) as u32);
    }
    norm(&mut out);
    out
}
pub fn from_u128(mut v: u128) -> N {
    let mut out = vec![];
    while v != 0 {
        out.push(v as u32);
        v >>= 32;
    }
    out
}
pub fn to_bytes(a: &N) -> Vec<u8> {
    let mut out = Vec::with_capacity(a.len() * 4);
    for w in a {
        out.extend_from_slice(&w.to_le_bytes());
    }
    while let Some(&0) = out.last() {
        out.pop();
    }
    out
}
pub fn cmp(a: &N, b: &N) -> std::cmp::Ordering {
    if a.len() != b.len() {
        return a.len().cmp(&b.len());
    }
    for k in (0..a.len()).rev() {
        if a[k] != b[k] {
            return a[k].cmp(&b[k]);
        }
    }
    std::cmp::Ordering::Equal
}
pub fn is_zero(a: &N) -> bool {
    a.is_empty()
}
pub fn add(a: &N, b: &N) -> N {
    let n = a.len().max(b.len());
    let mut out = Vec::with_capacity(n + 1);
    let mut c = 0u64;
    for k in 0..n {
        let t = *a.get(k).unwrap_or(&0) as u64 + *b.get(k).unwrap_or(&0) as u64 + c;
        out.push(t as u32);
        c = t >> 32;
    }
    if c != 0 {
        out.push(c as u32);
    }
    out
}
/// a - b, requires a >= b
pub fn sub(a: &N, b: &N) -> N {
    let mut out = Vec::with_capacity(a.len());
    let mut br = 0i64;
    for k in 0..a.len() {
        let mut t = a[k] as i64 - *b.get(k).unwrap_or(&0) as i64 - br;
        if t < 0 {
            t += 1 << 32;
            br = 1;
        } else {
            br = 0;
        }
        out.push(t as u32);
    }
    assert!(br == 0);
    norm(&mut out);
    out
}
pub fn mul(a: &N, b: &N) -> N {
    if a.is_empty() || b.is_empty() {
        return vec![];
    }
    let mut out = vec![0u32; a.len() + b.len()];
    for (i, &x) in a.iter().enumerate() {
        let mut c = 0u64;
        for (j, &y) in b.iter().enumerate() {
            let t = out[i + j] as u64 + x as u64 * y as u64 + c;
            out[i + j] = t as u32;
            c = t >> 32;
        }
        let mut k = i + b.len();
        while c != 0 {
            let t = out[k] as u64 + c;
            out[k] = t as u32;
            c = t >> 32;
            k += 1;
        }
    }
    norm(&mut out);
    out
}
fn shl1_or(a: &mut N, bit: u32) {
    let mut c = bit;
    for w in a.iter_mut() {
        let n = *w >> 31;
        *w = (*w << 1) | c;
        c = n;
    }
    if c != 0 {
        a.push(c);
    }
}
pub fn bits(a: &N) -> usize {
    if a.is_empty() {
        0
    } else {
        a.len() * 32 - a[a.len() - 1].leading_zeros() as usize
    }
}
/// (quotient, remainder), b != 0
pub fn divmod(a: &N, b: &N) -> (N, N) {
    assert!(!b.is_empty());
    let mut q: N = vec![0; a.len()];
    let mut r: N = vec![];
    for i in (0..bits(a)).rev() {
        let bit = (a[i / 32] >> (i % 32)) & 1;
        shl1_or(&mut r, bit);
        if cmp(&r, b) != std::cmp::Ordering::Less {
            r = sub(&r, b);
            q[i / 32] |= 1 << (i % 32);
        }
    }
    norm(&mut q);
    (q, r)
}
pub fn gcd(a: &N, b: &N) -> N {
    let (mut x, mut y) = (a.clone(), b.clone());
    while !y.is_empty() {
        let (_, r) = divmod(&x, &y);
        x = y;
        y = r;
    }
    x
}

#[cfg(test)]
mod tests {
    use super::*;
    #[test]
    fn small() {
        for a in [0u128, 1, 5, 1 << 40, u64::MAX as u128 * 3 + 7, u128::MAX] {
            for b in [1u128, 2, 3, 1 << 33, u64::MAX as u128, 0xdeadbeefcafe] {
                let (q, r) = divmod(&from_u128(a), &from_u128(b));
                assert_eq!(q, from_u128(a / b));
                assert_eq!(r, from_u128(a % b));
                if a < 1 << 64 && b < 1 << 64 {
                    assert_eq!(mul(&from_u128(a), &from_u128(b)), from_u128(a * b));
                }
                assert_eq!(add(&from_u128(a / 2), &from_u128(b)), from_u128(a / 2 + b));
            }
        }
    }
}

// ---- signed helpers (sign in {-1,0,1}, magnitude) for Bezout witnesses ----
pub type Z = (i32, N);
pub fn z_norm(s: i32, m: N) -> Z {
    if m.is_empty() {
        (0, m)
    } else {
        (s, m)
    }
}
pub fn z_neg(a: &Z) -> Z {
    (-a.0, a.1.clone())
}
pub fn z_add(a: &Z, b: &Z) -> Z {
    if a.0 == 0 {
        return b.clone();
    }
    if b.0 == 0 {
        return a.clone();
    }
    if a.0 == b.0 {
        return (a.0, add(&a.1, &b.1));
    }
    match cmp(&a.1, &b.1) {
        std::cmp::Ordering::Equal => (0, vec![]),
        std::cmp::Ordering::Greater => (a.0, sub(&a.1, &b.1)),
        std::cmp::Ordering::Less => (b.0, sub(&b.1, &a.1)),
    }
}
pub fn z_sub(a: &Z, b: &Z) -> Z {
    z_add(a, &z_neg(b))
}
pub fn z_mul(a: &Z, b: &Z) -> Z {
    z_norm(a.0 * b.0, mul(&a.1, &b.1))
}
/// (g, x, y) with |a|*x + |b|*y = g = gcd(|a|, |b|)
pub fn ext_gcd(a: &N, b: &N) -> (N, Z, Z) {
    let (mut r0, mut r1) = (a.clone(), b.clone());
    let (mut s0, mut s1): (Z, Z) = ((1, vec![1]), (0, vec![]));
    let (mut t0, mut t1): (Z, Z) = ((0, vec![]), (1, vec![1]));
    while !r1.is_empty() {
        let (q, r) = divmod(&r0, &r1);
        let qz: Z = z_norm(1, q);
        let s2 = z_sub(&s0, &z_mul(&qz, &s1));
        let t2 = z_sub(&t0, &z_mul(&qz, &t1));
        r0 = r1;
        r1 = r;
        s0 = s1;
        s1 = s2;
        t0 = t1;
        t1 = t2;
    }
    (r0, s0, t0)
}
pub fn z_json(z: &Z) -> String {
    let b = to_bytes(&z.1);
    let mut s = String::from("[");
    for (k, v) in b.iter().enumerate() {
        if k > 0 {
            s.push(',');
        }
        s.push_str(&v.to_string());
    }
    s.push(']');
    format!("{{\"s\":{},\"d\":{}}}", if z.1.is_empty() { 0 } else { z.0 }, s)
}

#[cfg(test)]
mod tests2 {
    use super::*;
    #[test]
    fn bezout() {
        for a in [0u128, 1, 12, 35, 1 << 70, 0xdeadbeefcafebabe1234] {
            for b in [0u128, 1, 18, 49, (1 << 70) + 6, 0xfeedface] {
                let (g, x, y) = ext_gcd(&from_u128(a), &from_u128(b));
                let lhs = z_add(&z_mul(&z_norm(1, from_u128(a)), &x), &z_mul(&z_norm(1, from_u128(b)), &y));
                assert_eq!(lhs, z_norm(1, g.clone()));
                fn gg(a: u128, b: u128) -> u128 { if b == 0 { a } else { gg(b, a % b) } }
                assert_eq!(g, from_u128(gg(a, b)));
            }
        }
    }
}
