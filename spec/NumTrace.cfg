CONSTANT Base = 256
SPECIFICATION Spec
POSTCONDITION Accepted
CHECK_DEADLOCK FALSE
