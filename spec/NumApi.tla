------------------------------- MODULE NumApi -------------------------------
(***************************************************************************)
(* L1: what each public operation of num-bigint must return, as a function *)
(* of the mathematical values of its operands (BigZ records over Base).    *)
(* Nothing here refers to how the library computes.  An operation is       *)
(* described by                                                            *)
(*   - a result operator (or a relation between operands and results), and *)
(*   - a Fails... predicate: the documented failure cases (panic / None).  *)
(* BigUint values are BigZ records with s \in {0, 1}.                      *)
(***************************************************************************)
EXTENDS BigZ

IsU(x) == x.s >= 0

----------------------------------------------------------------------------
(* additive *)
AddR(a, b)        == ZAdd(a, b)
SubR(a, b)        == ZSub(a, b)
FailsSubU(a, b)   == ZCmp(a, b) < 0          \* BigUint: a - b with a < b

(* multiplicative *)
MulR(a, b)        == ZMul(a, b)

(* division: zero divisor fails for every convention and type *)
FailsDiv(b)       == b.s = 0

(* construction from digit material *)
OfBytesLE(sgn, bytes) == Z(sgn, Norm(bytes))
OfBytesBE(sgn, bytes) == Z(sgn, Norm(Reverse(bytes)))
\* any (sign, magnitude) request: NoSign gives zero, zero magnitude gives NoSign
OfSignMag(sgn, mag)   == IF sgn = 0 THEN ZZero ELSE Z(sgn, mag.d)
=============================================================================
