------------------------------- MODULE NumApi -------------------------------
(***************************************************************************)
(* L1: what each public operation of num-bigint must return, as a function *)
(* of the mathematical values of its operands (BigZ records over Base).    *)
(* Nothing here refers to how the library computes.  An operation is       *)
(* described by                                                            *)
(*   - a result operator (or a relation between operands and results), and *)
(*   - a Fails... predicate: the documented failure cases (panic / None).  *)
(* BigUint values are BigZ records with s \in {0, 1}.                      *)
(***************************************************************************)
EXTENDS Text, Floats

IsU(x) == x.s >= 0

----------------------------------------------------------------------------
(* additive *)
AddR(a, b)        == ZAdd(a, b)
SubR(a, b)        == ZSub(a, b)
FailsSubU(a, b)   == ZCmp(a, b) < 0          \* BigUint: a - b with a < b

(* multiplicative *)
MulR(a, b)        == ZMul(a, b)

(* division: zero divisor fails for every convention and type *)
FailsDiv(b)       == b.s = 0

DivConv(op) ==
    CASE op \in {"div", "rem", "div_rem", "checked_div", "is_multiple_of"} -> "trunc"
      [] op \in {"div_floor", "mod_floor", "div_mod_floor"} -> "floor"
      [] op \in {"div_euclid", "rem_euclid", "div_rem_euclid", "checked_div_euclid",
                 "checked_rem_euclid", "checked_div_rem_euclid"} -> "euclid"
      [] op = "div_ceil" -> "ceil"
IsDivPair(conv, a, b, q, r) ==
    CASE conv = "trunc"  -> IsTruncDivRem(a, b, q, r)
      [] conv = "floor"  -> IsFloorDivMod(a, b, q, r)
      [] conv = "euclid" -> IsEuclidDivRem(a, b, q, r)
      [] conv = "ceil"   -> IsCeilDivRem(a, b, q, r)
\* only zero is a multiple of zero
IsMultipleOf(a, b, hintq) ==
    IF b.s = 0 THEN a.s = 0 ELSE ZEq(a, ZMul(hintq, b))

(* bits: amounts and indices arrive as magnitudes (byte sequences) because they may exceed TLC integers *)
SmallMag(m)  == Len(m) <= 3                      \* < 2^24: usable as a TLC integer
ShlR(x, m)   == IF x.s = 0 THEN ZZero ELSE ZShl(x, Val(m))            \* only generated with small m unless x = 0
ShrR(x, m)   == IF Cmp(m, OfInt(BitLen(x.d))) >= 0
                THEN (IF x.s < 0 THEN ZInt(-1) ELSE ZZero)             \* everything shifted out: floor gives -1 / 0
                ELSE ZShr(x, Val(m))
BitR(x, m)   == IF SmallMag(m) THEN ZBit(x, Val(m)) = 1 ELSE x.s < 0   \* far beyond the top: the sign extension
SetBitR(x, m, v) == IF SmallMag(m) THEN ZSetBit(x, Val(m), v) ELSE x   \* far indices only generated as no-ops

(* modular arithmetic.  Reductions are checked with untrusted quotient witnesses: x - q*m must land in [0, m). *)
ReduceWith(x, m, q) ==
    LET p == Mul(q, m) IN
    IF Cmp(p, x) > 0 THEN [ok |-> FALSE, r |-> <<>>]
    ELSE LET r == Sub(x, p) IN [ok |-> Cmp(r, m) < 0, r |-> r]
\* |b|^|e| mod |m| by left-to-right square-and-multiply; hq = the quotients of every reduction, in order
ModPowMag(b, e, m, hq) ==
    LET bad == [ok |-> FALSE, s |-> <<>>, k |-> 0]
        r0  == IF Len(hq) >= 1 THEN ReduceWith(b, m, hq[1]) ELSE [ok |-> FALSE, r |-> <<>>]
        one == IF m = <<1>> THEN <<>> ELSE <<1>>
        step(st, bit) ==
            IF ~st.ok \/ st.k > Len(hq) THEN bad
            ELSE LET sq == ReduceWith(Mul(st.s, st.s), m, hq[st.k]) IN
                 IF bit = 0 THEN [ok |-> sq.ok, s |-> sq.r, k |-> st.k + 1]
                 ELSE IF ~sq.ok \/ st.k + 1 > Len(hq) THEN bad
                 ELSE LET ml == ReduceWith(Mul(sq.r, r0.r), m, hq[st.k + 1]) IN
                      [ok |-> ml.ok, s |-> ml.r, k |-> st.k + 2]
        fin == FoldLeft(step, [ok |-> r0.ok, s |-> one, k |-> 2], BitsMsb(e))
    IN [ok |-> fin.ok /\ fin.k = Len(hq) + 1, r |-> fin.s]
FailsModPow(e, m) == m.s = 0 \/ e.s < 0
\* b^e mod m as the floor-mod representative: in [0, m) for m > 0, in (m, 0] for m < 0
ModPowR(b, e, m, hq) ==
    LET mp  == ModPowMag(b.d, e.d, m.d, hq)
        neg == b.s < 0 /\ Bit(e.d, 0) = 1
        t   == IF ~neg \/ mp.r = <<>> THEN mp.r ELSE Sub(m.d, mp.r)
    IN [ok |-> mp.ok,
        v  |-> IF m.s > 0 THEN ZNat(t) ELSE IF t = <<>> THEN ZZero ELSE Z(-1, Sub(m.d, t))]
InModInterval(x, m) == IF m.s > 0 THEN x.s >= 0 /\ Cmp(x.d, m.d) < 0
                       ELSE x.s <= 0 /\ Cmp(x.d, m.d) < 0
\* Some(x): b*x = 1 + K*m with x in the interval (this alone implies gcd(b, m) = 1);
\* None: a common divisor g > 1 with |b| = g*b1 and |m| = g*m1
ModInvSomeOK(b, m, x, K) == InModInterval(x, m) /\ ZEq(ZSub(ZMul(b, x), ZOne), ZMul(K, m))
ModInvNoneOK(b, m, hg)   == Cmp(hg[1], <<1>>) > 0 /\ Mul(hg[1], hg[2]) = b.d /\ Mul(hg[1], hg[3]) = m.d

(* primitive integer targets *)
TypeBits(t) == CASE t \in {"u8", "i8"} -> 8 [] t \in {"u16", "i16"} -> 16 [] t \in {"u32", "i32"} -> 32
                 [] t \in {"u64", "i64", "usize", "isize"} -> 64 [] t \in {"u128", "i128"} -> 128
TypeSigned(t) == t \in {"i8", "i16", "i32", "i64", "i128", "isize"}
InRange(x, t) ==
    LET b == TypeBits(t) IN
    IF TypeSigned(t)
    THEN (IF x.s >= 0 THEN Cmp(x.d, PowerOfTwo(b - 1)) < 0 ELSE Cmp(x.d, PowerOfTwo(b - 1)) <= 0)
    ELSE x.s >= 0 /\ BitLen(x.d) <= b
FloatP(w)  == IF w = 8 THEN 53 ELSE 24
FloatEB(w) == IF w = 8 THEN 11 ELSE 8

(* roots: n arrives as a magnitude (it may be u32::MAX) *)
MagEven(m) == m = <<>> \/ (m[1] % 2) = 0
FailsRoot(x, nm) == nm = <<>> \/ (x.s < 0 /\ MagEven(nm))
IsFloorRoot(xm, n, rm) ==
    /\ BitLen(rm) <= (BitLen(xm) \div n) + 1                    \* keeps the powers below small (a wrong huge r is rejected here)
    /\ Cmp(Pow(rm, n), xm) <= 0
    /\ Cmp(Pow(AddSmall(rm, 1), n), xm) > 0
\* r is the n-th root of x truncated toward zero
RootR(x, nm, r) ==
    IF x.s = 0 THEN r.s = 0
    ELSE IF ~SmallMag(nm) \/ Val(nm) >= BitLen(x.d) THEN r.s = x.s /\ r.d = <<1>>      \* 1 <= |x| < 2^n
    ELSE r.s = x.s /\ IsFloorRoot(x.d, Val(nm), r.d)

(* powers with an exponent register: computable exponents, or base 0 / +-1 for astronomically large ones *)
PowBigR(x, e) ==
    IF Len(e.d) <= 2 THEN ZPow(x, Val(e.d))
    ELSE IF x.s = 0 THEN ZZero
    ELSE IF x.s > 0 THEN ZOne
    ELSE (IF MagEven(e.d) THEN ZOne ELSE ZInt(-1))
PowBigDefined(x, e) == Len(e.d) <= 2 \/ x.s = 0 \/ x.d = <<1>>

(* gcd certificates: g >= 0 divides both, and is a linear combination of both *)
GcdCert(a, b, h) ==
    /\ h.g.s >= 0
    /\ ZEq(a, ZMul(h.g, h.ca)) /\ ZEq(b, ZMul(h.g, h.cb))
    /\ ZEq(ZAdd(ZMul(a, h.x), ZMul(b, h.y)), h.g)
IsLcm(a, b, g, l) == IF a.s = 0 \/ b.s = 0 THEN l.s = 0
                     ELSE l.s > 0 /\ ZEq(ZMul(l, g), ZAbs(ZMul(a, b)))
\* res is the multiple k*b of b next to a in the direction of b's sign (or a itself)
IsNextMultiple(a, b, res, k) == LET d == ZSub(res, a) IN
    ZEq(res, ZMul(k, b)) /\ (d.s = 0 \/ (d.s = b.s /\ Cmp(d.d, b.d) < 0))
IsPrevMultiple(a, b, res, k) == LET d == ZSub(a, res) IN
    ZEq(res, ZMul(k, b)) /\ (d.s = 0 \/ (d.s = b.s /\ Cmp(d.d, b.d) < 0))
AbsSubR(a, b) == IF ZCmp(a, b) > 0 THEN ZSub(a, b) ELSE ZZero

(* C20: multiply-accumulate work W (a magnitude) for balanced n x n and unbalanced n x m products.
   doubling: W(2n) <= 3 W(n) + W(n)/6 ("at most about three, not four");  quarter: 4 W(4096) < 4096^2;
   unbalanced: W(n, m) <= n m. *)
CostDoublingOK(w1, w2) == Cmp(MulSmall(w2, 6), MulSmall(w1, 19)) <= 0
CostQuarterOK(n, w)    == Cmp(MulSmall(w, 4), Mul(OfInt(n), OfInt(n))) < 0
CostUnbalancedOK(n, m, w) == Cmp(w, Mul(OfInt(n), OfInt(m))) <= 0
CostTableOK(bal, unbal) ==
    /\ \A k \in 1..(Len(bal) - 1) : bal[k + 1].n = 2 * bal[k].n /\ CostDoublingOK(bal[k].w.m, bal[k + 1].w.m)
    /\ \A k \in 1..Len(bal) : bal[k].n = 4096 => CostQuarterOK(4096, bal[k].w.m)
    /\ \E k \in 1..Len(bal) : bal[k].n = 4096
    /\ bal[1].n = 256 /\ bal[Len(bal)].n = 16384
    /\ \A k \in 1..Len(unbal) : CostUnbalancedOK(unbal[k].n, unbal[k].m, unbal[k].w.m)

\* sparse operands (few non-zero digits): a quarter of the schoolbook count for balanced products from 4096 digits on, and
\* never more than the schoolbook count; no doubling rule (rows of zero digits are skipped, the ratios are irregular)
CostSparseOK(bal, unbal) ==
    /\ \A k \in 1..Len(bal) : bal[k].n >= 4096 => Cmp(MulSmall(bal[k].w.m, 4), Mul(OfInt(bal[k].n), OfInt(bal[k].n))) < 0
    /\ \A k \in 1..Len(unbal) : CostUnbalancedOK(unbal[k].n, unbal[k].m, unbal[k].w.m)

(* radix ranges *)
FailsTextRadix(radix)  == radix < 2 \/ radix > 36
FailsDigitRadix(radix) == radix < 2 \/ radix > 256
\* from_radix_*: None exactly when a digit is not below the radix; empty means zero
FromRadixOK(dsMsb, radix) == \A k \in 1..Len(dsMsb) : dsMsb[k] < radix

(* construction from digit material *)
OfBytesLE(sgn, bytes) == IF sgn = 0 THEN ZZero ELSE Z(sgn, Norm(bytes))
OfBytesBE(sgn, bytes) == OfBytesLE(sgn, Reverse(bytes))
\* any (sign, magnitude) request: NoSign gives zero, zero magnitude gives NoSign
OfSignMag(sgn, mag)   == IF sgn = 0 THEN ZZero ELSE Z(sgn, mag.d)

(* export: zero is one zero byte; otherwise the base-256 digits *)
BytesLE(v) == IF v.d = <<>> THEN <<0>> ELSE v.d
\* the base-2^(8W) digits of v as W-byte little-endian words: none for zero, no high zero word
WordCount(v, W) == (Len(v.d) + W - 1) \div W
WordList(v, W)  == [i \in 1..WordCount(v, W) |-> [j \in 1..W |-> Dig(v.d, (i - 1) * W + j)]]
Flatten(ws)     == FoldLeft(LAMBDA acc, w: acc \o w, <<>>, ws)
IsWordsOf(bytes, v, W) == bytes = Flatten(WordList(v, W))

(* two's complement byte strings (little endian) *)
TwosDecode(b) ==
    IF b = <<>> THEN ZZero
    ELSE IF b[Len(b)] >= 128 THEN Z(-1, Sub(PowerOfTwo(8 * Len(b)), Norm(b)))
    ELSE ZNat(Norm(b))
\* a sign-extension byte that could be dropped without changing the value
RedundantTop(b) ==
    /\ Len(b) >= 2
    /\ \/ b[Len(b)] = 0 /\ b[Len(b) - 1] < 128
       \/ b[Len(b)] = 255 /\ b[Len(b) - 1] >= 128
\* THE shortest two's complement encoding of v (unique)
IsSignedBytesLE(b, v) == Len(b) >= 1 /\ ~RedundantTop(b) /\ ZEq(TwosDecode(b), v)

(* digit iterators are exact-size double-ended iterators over WordList: a deque.
   calls: records [c, k, some, w, n]; returns TRUE iff every logged answer is the deque's answer *)
IterStep(st, c) ==
    LET dq == st.dq  n == Len(dq) IN
    CASE c.c = "next" ->
           IF n = 0 THEN [dq |-> dq, ok |-> st.ok /\ ~c.some]
           ELSE [dq |-> Tail(dq), ok |-> st.ok /\ c.some /\ c.w = dq[1]]
      [] c.c = "next_back" ->
           IF n = 0 THEN [dq |-> dq, ok |-> st.ok /\ ~c.some]
           ELSE [dq |-> SubSeq(dq, 1, n - 1), ok |-> st.ok /\ c.some /\ c.w = dq[n]]
      [] c.c = "len" -> [dq |-> dq, ok |-> st.ok /\ c.n = n]
      [] c.c = "size_hint" -> [dq |-> dq, ok |-> st.ok /\ c.n = n /\ c.some]      \* (n, Some(n))
      [] c.c = "count" -> [dq |-> <<>>, ok |-> st.ok /\ c.n = n]
      [] c.c = "nth" ->
           IF c.k < n THEN [dq |-> SubSeq(dq, c.k + 2, n), ok |-> st.ok /\ c.some /\ c.w = dq[c.k + 1]]
           ELSE [dq |-> <<>>, ok |-> st.ok /\ ~c.some]
      [] c.c = "nth_back" ->
           IF c.k < n THEN [dq |-> SubSeq(dq, 1, n - c.k - 1), ok |-> st.ok /\ c.some /\ c.w = dq[n - c.k]]
           ELSE [dq |-> <<>>, ok |-> st.ok /\ ~c.some]
      [] c.c = "last" ->
           IF n = 0 THEN [dq |-> dq, ok |-> st.ok /\ ~c.some]
           ELSE [dq |-> <<>>, ok |-> st.ok /\ c.some /\ c.w = dq[n]]
      [] c.c = "collect" -> [dq |-> <<>>, ok |-> st.ok /\ c.w = Flatten(dq)]
      [] c.c = "collect_rev" -> [dq |-> <<>>, ok |-> st.ok /\ c.w = Flatten(Reverse(dq))]
      [] OTHER -> [dq |-> dq, ok |-> FALSE]
IterOK(v, W, calls) == FoldLeft(IterStep, [dq |-> WordList(v, W), ok |-> TRUE], calls).ok
(* random generation as a function of the consumed stream of 32-bit words (each a 4-byte little-endian tuple) *)
WordsOf(bs) == [i \in 1..(Len(bs) \div 4) |-> SubSeq(bs, 4 * i - 3, 4 * i)]
\* the n-bit candidate starting at word k: the next ceil(n/32) words as base-2^32 digits, top word shifted down
GenBits(ws, k, n) ==
    LET len == (n + 31) \div 32  rem == n % 32 IN
    IF k + len - 1 > Len(ws) THEN [ok |-> FALSE, v |-> <<>>, k |-> k]
    ELSE IF len = 0 THEN [ok |-> TRUE, v |-> <<>>, k |-> k]
    ELSE LET lower == Norm(Flatten(SubSeq(ws, k, k + len - 2)))
             top   == Norm(ws[k + len - 1])
             topv  == IF rem = 0 THEN top ELSE Shr(top, 32 - rem)
         IN [ok |-> TRUE, v |-> Add(lower, Shl(topv, 32 * (len - 1))), k |-> k + len]
\* bounded sampling: the first candidate of BitLen(b) bits that is below b
RECURSIVE GenBelow(_, _, _)
GenBelow(ws, k, b) ==
    LET c == GenBits(ws, k, BitLen(b)) IN
    IF ~c.ok THEN c ELSE IF Cmp(c.v, b) < 0 THEN c ELSE GenBelow(ws, c.k, b)
WordBool(w) == w[4] >= 128
\* signed: magnitude candidate, then one word whose top bit is the sign; a zero magnitude is retried when that bit is set
RECURSIVE GenBigInt(_, _, _)
GenBigInt(ws, k, n) ==
    LET c == GenBits(ws, k, n) IN
    IF ~c.ok \/ c.k > Len(ws) THEN [ok |-> FALSE, v |-> ZZero, k |-> k]
    ELSE LET b == WordBool(ws[c.k]) IN
         IF c.v = <<>> THEN (IF b THEN GenBigInt(ws, c.k + 1, n) ELSE [ok |-> TRUE, v |-> ZZero, k |-> c.k + 1])
         ELSE [ok |-> TRUE, v |-> Z(IF b THEN 1 ELSE -1, c.v), k |-> c.k + 1]
RangeWidth(lo, hi, incl) == IF incl THEN ZAddInt(ZSub(hi, lo), 1) ELSE ZSub(hi, lo)

=============================================================================
