------------------------------- MODULE NumApi -------------------------------
(***************************************************************************)
(* L1: what each public operation of num-bigint must return, as a function *)
(* of the mathematical values of its operands (BigZ records over Base).    *)
(* Nothing here refers to how the library computes.  An operation is       *)
(* described by                                                            *)
(*   - a result operator (or a relation between operands and results), and *)
(*   - a Fails... predicate: the documented failure cases (panic / None).  *)
(* BigUint values are BigZ records with s \in {0, 1}.                      *)
(***************************************************************************)
EXTENDS BigZ

IsU(x) == x.s >= 0

----------------------------------------------------------------------------
(* additive *)
AddR(a, b)        == ZAdd(a, b)
SubR(a, b)        == ZSub(a, b)
FailsSubU(a, b)   == ZCmp(a, b) < 0          \* BigUint: a - b with a < b

(* multiplicative *)
MulR(a, b)        == ZMul(a, b)

(* division: zero divisor fails for every convention and type *)
FailsDiv(b)       == b.s = 0

DivConv(op) ==
    CASE op \in {"div", "rem", "div_rem", "checked_div", "is_multiple_of"} -> "trunc"
      [] op \in {"div_floor", "mod_floor", "div_mod_floor"} -> "floor"
      [] op \in {"div_euclid", "rem_euclid", "div_rem_euclid", "checked_div_euclid",
                 "checked_rem_euclid", "checked_div_rem_euclid"} -> "euclid"
      [] op = "div_ceil" -> "ceil"
IsDivPair(conv, a, b, q, r) ==
    CASE conv = "trunc"  -> IsTruncDivRem(a, b, q, r)
      [] conv = "floor"  -> IsFloorDivMod(a, b, q, r)
      [] conv = "euclid" -> IsEuclidDivRem(a, b, q, r)
      [] conv = "ceil"   -> IsCeilDivRem(a, b, q, r)
\* only zero is a multiple of zero
IsMultipleOf(a, b, hintq) ==
    IF b.s = 0 THEN a.s = 0 ELSE ZEq(a, ZMul(hintq, b))

(* construction from digit material *)
OfBytesLE(sgn, bytes) == Z(sgn, Norm(bytes))
OfBytesBE(sgn, bytes) == Z(sgn, Norm(Reverse(bytes)))
\* any (sign, magnitude) request: NoSign gives zero, zero magnitude gives NoSign
OfSignMag(sgn, mag)   == IF sgn = 0 THEN ZZero ELSE Z(sgn, mag.d)
=============================================================================
