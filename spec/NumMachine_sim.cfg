CONSTANTS NU = 2  NI = 2  MaxAbs = 5000  Depth = 12
CONSTANT Seeds <- SeedsDefault
SPECIFICATION Spec
INVARIANTS TypeOK Emit
CHECK_DEADLOCK FALSE
