------------------------------ MODULE NumTrace ------------------------------
(***************************************************************************)
(* Trace specification (binding V).  A recorded NDJSON trace of calls on   *)
(* the real library is replayed against the L1 rules of NumApi: the spec   *)
(* keeps its own register bank, computes (or relationally checks) what     *)
(* each call must return from ITS OWN operand values, and compares with    *)
(* the logged post-state.  One deterministic step per line.  An event that *)
(* breaks a rule prints <<"BAD", line, op, form>> and the run continues so *)
(* that the rest of the trace is still examined.                           *)
(***************************************************************************)
EXTENDS NumApi, TLC, Json, IOUtils

Ev == ndJsonDeserialize(IOEnv.TRACE)
NRegs == 16
VARIABLES l, regs
vars == <<l, regs>>

Has(e, f) == f \in DOMAIN e

\* operand k of the event, from the specification's own state
S(e, k) == regs[e.src[k]]
\* logged post-state of destination k
P(e, k) == e.post[k]
\* scalar argument k as a value
SC(e, k) == LET x == e.sc[k] IN [s |-> IF x.m = <<>> THEN 0 ELSE IF x.neg THEN -1 ELSE 1, d |-> x.m]
SCV(x) == [s |-> IF x.m = <<>> THEN 0 ELSE IF x.neg THEN -1 ELSE 1, d |-> x.m]
IsUTy(e) == e.ty = "U"
RootN(e) == IF Has(e, "sc") THEN e.sc[1].m ELSE OfInt(e.n)
\* operand k of a binary operation: a source register or a scalar, as selected by e.args
A(e, k) == IF ~Has(e, "args") THEN S(e, k)
           ELSE LET c == e.args[k] IN IF "r" \in DOMAIN c THEN S(e, c.r) ELSE SC(e, c.c)

Adopt(v) == LET d == Norm(v.d) IN [s |-> IF d = <<>> THEN 0 ELSE IF v.s = 0 THEN 1 ELSE v.s, d |-> d]
AllPostCanon(e) == \A k \in 1..Len(e.post) : ZCanon(e.post[k]) /\ IsDigits(e.post[k].d)
\* values are compared modulo representation; canonical form is judged separately ("noncanon")
PostIs1(e, v) == ZEq(Adopt(P(e, 1)), v)

----------------------------------------------------------------------------
(* Fails(e): the call is in a documented failure case (must panic, or be   *)
(* None for checked variants).                                             *)
DivOps == {"div", "rem", "div_rem", "checked_div", "div_floor", "mod_floor", "div_mod_floor", "div_ceil",
           "div_euclid", "rem_euclid", "div_rem_euclid", "checked_div_euclid", "checked_rem_euclid",
           "checked_div_rem_euclid"}
Fails(e) ==
    CASE e.op \in {"sub", "checked_sub"} /\ IsUTy(e) -> FailsSubU(A(e, 1), A(e, 2))
      [] e.op \in DivOps -> FailsDiv(A(e, 2))
      [] e.op = "rem_prim" -> FailsDiv(A(e, 2))
      [] e.op \in {"sqrt", "cbrt", "nth_root"} -> FailsRoot(S(e, 1), RootN(e))
      [] e.op \in {"next_multiple_of", "prev_multiple_of"} -> S(e, 2).s = 0
      [] e.op = "dec" /\ IsUTy(e) -> S(e, 1).s = 0
      [] e.op = "gen_biguint_below" -> S(e, 1).s = 0
      [] e.op = "gen_range" -> RangeWidth(S(e, 1), S(e, 2), e.incl).s <= 0
      [] e.op = "modpow" -> FailsModPow(S(e, 2), S(e, 3))
      [] e.op = "modinv" -> S(e, 2).s = 0
      [] e.op \in {"shl", "shr"} -> e.sc[1].neg /\ e.sc[1].m # <<>>
      [] e.op \in {"to_str_radix", "parse"} -> FailsTextRadix(e.radix)
      [] e.op \in {"to_radix_le", "to_radix_be", "from_radix_le", "from_radix_be"} -> FailsDigitRadix(e.radix)
      [] OTHER -> FALSE

\* checked_* operations report failure as None and never panic
IsChecked(e) == e.op \in {"checked_add", "checked_sub", "checked_mul", "checked_div", "checked_div_euclid",
                          "checked_rem_euclid", "checked_div_rem_euclid"}

PA(e, k) == Adopt(P(e, k))
DivRule(e) ==
    LET a == A(e, 1)  b == A(e, 2)  conv == DivConv(e.op) IN
    CASE e.part = "qr" -> IsDivPair(conv, a, b, PA(e, 1), PA(e, 2))
      [] e.part = "q"  -> LET q == PA(e, 1) IN IsDivPair(conv, a, b, q, ZSub(a, ZMul(q, b)))
      [] e.part = "r"  -> IsDivPair(conv, a, b, Adopt(e.hint[1]), PA(e, 1))

(* Rule(e): the call returned normally and is not in a failure case.       *)
Rule(e) ==
    CASE e.op = "from_bytes_le" -> PostIs1(e, OfBytesLE(IF Has(e, "sgn") THEN e.sgn ELSE 1, e.bytes))
      [] e.op = "from_bytes_be" -> PostIs1(e, OfBytesBE(IF Has(e, "sgn") THEN e.sgn ELSE 1, e.bytes))
      [] e.op = "new_u32"       -> PostIs1(e, OfBytesLE(IF Has(e, "sgn") THEN e.sgn ELSE 1, e.words))
      [] e.op = "from_signed_bytes_le" -> PostIs1(e, TwosDecode(e.bytes))
      [] e.op = "from_signed_bytes_be" -> PostIs1(e, TwosDecode(Reverse(e.bytes)))
      [] e.op = "to_bytes_le" -> e.ret.bytes = BytesLE(S(e, 1)) /\ (e.ty = "I" => e.ret.n = S(e, 1).s)
      [] e.op = "to_bytes_be" -> e.ret.bytes = Reverse(BytesLE(S(e, 1))) /\ (e.ty = "I" => e.ret.n = S(e, 1).s)
      [] e.op = "to_u32_digits" -> IsWordsOf(e.ret.bytes, S(e, 1), 4) /\ (e.ty = "I" => e.ret.n = S(e, 1).s)
      [] e.op = "to_u64_digits" -> IsWordsOf(e.ret.bytes, S(e, 1), 8) /\ (e.ty = "I" => e.ret.n = S(e, 1).s)
      [] e.op = "to_signed_bytes_le" -> IsSignedBytesLE(e.ret.bytes, S(e, 1))
      [] e.op = "to_signed_bytes_be" -> IsSignedBytesLE(Reverse(e.ret.bytes), S(e, 1))
      [] e.op = "iter_collect" -> e.ret.bytes = Flatten(IF e.rev THEN Reverse(WordList(S(e, 1), e.w)) ELSE WordList(S(e, 1), e.w))
      [] e.op = "modpow" -> LET mp == ModPowR(S(e, 1), S(e, 2), S(e, 3), e.hq) IN mp.ok /\ PostIs1(e, mp.v)
      [] e.op = "modinv" -> IF e.ret.some THEN ModInvSomeOK(S(e, 1), S(e, 2), PA(e, 1), Adopt(e.ret.hk))
                            ELSE ModInvNoneOK(S(e, 1), S(e, 2), e.hg)
      [] e.op \in {"to_prim", "to_prim_val"} ->
            LET x == S(e, 1)  fits == InRange(x, e.t) IN
            /\ e.ret.some = fits
            /\ (fits => ZEq(SCV(e.ret.z[1]), x))
            /\ (e.op = "to_prim_val" => PostIs1(e, IF fits THEN ZZero ELSE x))
      [] e.op = "to_biguint" -> e.ret.some = (S(e, 1).s >= 0) /\ PostIs1(e, IF S(e, 1).s >= 0 THEN S(e, 1) ELSE ZZero)
      [] e.op = "to_biguint_val" ->
            LET x == S(e, 1) IN
            /\ e.ret.some = (x.s >= 0)
            /\ ZEq(PA(e, 1), IF x.s >= 0 THEN x ELSE ZZero) /\ ZEq(PA(e, 2), IF x.s >= 0 THEN ZZero ELSE x)
      [] e.op = "to_bigint" -> e.ret.some /\ PostIs1(e, S(e, 1))
      [] e.op = "to_f64" -> e.ret.some /\ Norm(e.ret.fb) = FloatBitsOf(S(e, 1).s < 0, S(e, 1).d, 53, 11)
      [] e.op = "to_f32" -> e.ret.some /\ Norm(e.ret.fb) = FloatBitsOf(S(e, 1).s < 0, S(e, 1).d, 24, 8)
      [] e.op = "from_prim" ->
            LET x == SC(e, 1) IN
            IF e.ty = "U" /\ x.s < 0 THEN ~e.ret.some ELSE e.ret.some /\ PostIs1(e, x)
      [] e.op = "from_float" ->
            LET d == FloatTrunc(Norm(e.fb), FloatP(e.w), FloatEB(e.w)) IN
            IF ~d.finite THEN ~e.ret.some
            ELSE IF e.ty = "U" /\ d.neg /\ d.mag # <<>> THEN ~e.ret.some
            ELSE e.ret.some /\ PostIs1(e, Z(IF d.neg THEN -1 ELSE 1, d.mag))
      [] e.op \in {"sqrt", "cbrt", "nth_root"} -> RootR(S(e, 1), RootN(e), PA(e, 1))
      [] e.op = "pow" -> PowBigDefined(S(e, 1), SC(e, 1)) /\ PostIs1(e, PowBigR(S(e, 1), SC(e, 1)))
      [] e.op = "pow_big" -> PowBigDefined(S(e, 1), S(e, 2)) /\ PostIs1(e, PowBigR(S(e, 1), S(e, 2)))
      [] e.op = "gcd" -> GcdCert(S(e, 1), S(e, 2), e.hg) /\ PostIs1(e, e.hg.g)
      [] e.op = "lcm" -> GcdCert(S(e, 1), S(e, 2), e.hg) /\ IsLcm(S(e, 1), S(e, 2), e.hg.g, PA(e, 1))
      [] e.op = "gcd_lcm" -> /\ GcdCert(S(e, 1), S(e, 2), e.hg) /\ ZEq(PA(e, 1), e.hg.g)
                             /\ IsLcm(S(e, 1), S(e, 2), e.hg.g, PA(e, 2))
      [] e.op \in {"extended_gcd", "extended_gcd_lcm"} ->
            /\ GcdCert(S(e, 1), S(e, 2), e.hg) /\ ZEq(PA(e, 1), e.hg.g)
            /\ ZEq(ZAdd(ZMul(S(e, 1), PA(e, 2)), ZMul(S(e, 2), PA(e, 3))), PA(e, 1))
            /\ (e.op = "extended_gcd_lcm" => IsLcm(S(e, 1), S(e, 2), e.hg.g, PA(e, 4)))
      [] e.op = "next_multiple_of" -> IsNextMultiple(S(e, 1), S(e, 2), PA(e, 1), Adopt(e.ret.hk))
      [] e.op = "prev_multiple_of" -> IsPrevMultiple(S(e, 1), S(e, 2), PA(e, 1), Adopt(e.ret.hk))
      [] e.op = "is_even" -> e.ret.b = (Bit(S(e, 1).d, 0) = 0)
      [] e.op = "is_odd"  -> e.ret.b = (Bit(S(e, 1).d, 0) = 1)
      [] e.op = "inc" -> PostIs1(e, ZAddInt(S(e, 1), 1))
      [] e.op = "dec" -> PostIs1(e, ZAddInt(S(e, 1), -1))
      [] e.op = "neg" -> PostIs1(e, ZNeg(S(e, 1)))
      [] e.op = "abs" -> PostIs1(e, ZAbs(S(e, 1)))
      [] e.op = "signum" -> PostIs1(e, ZInt(S(e, 1).s))
      [] e.op = "is_positive" -> e.ret.b = (S(e, 1).s > 0)
      [] e.op = "is_negative" -> e.ret.b = (S(e, 1).s < 0)
      [] e.op = "sign" -> e.ret.n = S(e, 1).s
      [] e.op = "magnitude" -> PostIs1(e, ZAbs(S(e, 1)))
      [] e.op = "into_parts" -> e.ret.n = S(e, 1).s /\ PostIs1(e, ZAbs(S(e, 1)))
      [] e.op = "abs_sub" -> PostIs1(e, AbsSubR(S(e, 1), S(e, 2)))
      [] e.op = "is_zero" -> e.ret.b = (S(e, 1).s = 0)
      [] e.op = "is_one" -> e.ret.b = ZEq(S(e, 1), ZOne)
      [] e.op = "set_zero" -> PostIs1(e, ZZero)
      [] e.op = "set_one" -> PostIs1(e, ZOne)
      [] e.op = "const" -> PostIs1(e, ZInt(e.n))
      [] e.op = "sign_neg" -> e.ret.n = -e.a
      [] e.op = "sign_mul" -> e.ret.n = e.a * e.b
      [] e.op = "serialize" ->
            LET t == e.ret.toks  v == S(e, 1) IN
            /\ t.shape = (IF e.ty = "U" THEN "seq" ELSE "tuple")
            /\ (e.ty = "I" => t.sign = v.s)
            /\ t.len = t.count                                  \* declared length = number of elements
            /\ IsWordsOf(t.elems, v, 4)
      [] e.op = "deserialize" ->
            LET t == e.toks IN
            IF e.ty = "I" /\ t.sign \notin {-1, 0, 1} THEN ~e.ret.some
            ELSE e.ret.some /\ PostIs1(e, OfBytesLE(IF e.ty = "I" THEN t.sign ELSE 1, t.elems))
      [] e.op = "serde_roundtrip" -> PostIs1(e, S(e, 1))
      [] e.op = "gen_biguint" ->
            LET W == WordsOf(e.ret.words)  c == GenBits(W, 1, e.n) IN
            c.ok /\ c.k = Len(W) + 1 /\ PostIs1(e, ZNat(c.v))
      [] e.op = "gen_bigint" ->
            LET W == WordsOf(e.ret.words)  c == GenBigInt(W, 1, e.n) IN
            c.ok /\ c.k = Len(W) + 1 /\ PostIs1(e, c.v)
      [] e.op = "gen_biguint_below" ->
            LET W == WordsOf(e.ret.words)  c == GenBelow(W, 1, S(e, 1).d) IN
            c.ok /\ c.k = Len(W) + 1 /\ PostIs1(e, ZNat(c.v))
      [] e.op = "gen_range" ->
            LET W == WordsOf(e.ret.words)  c == GenBelow(W, 1, RangeWidth(S(e, 1), S(e, 2), e.incl).d) IN
            c.ok /\ c.k = Len(W) + 1 /\ PostIs1(e, ZAdd(S(e, 1), ZNat(c.v)))
      [] e.op = "to_str_radix" -> IsTextOf(e.ret.text, S(e, 1), e.radix, FALSE)
      [] e.op = "fmt" -> e.ret.text = FormatR(S(e, 1), e.spec)
      [] e.op = "to_radix_le" -> IsDigitsOf(Reverse(e.ret.bytes), S(e, 1).d, e.radix) /\ (e.ty = "I" => e.ret.n = S(e, 1).s)
      [] e.op = "to_radix_be" -> IsDigitsOf(e.ret.bytes, S(e, 1).d, e.radix) /\ (e.ty = "I" => e.ret.n = S(e, 1).s)
      [] e.op = "parse" ->
            LET pr == ParseText(e.text, e.radix, e.ty = "I") IN
            IF pr.ok THEN e.ret.some /\ PostIs1(e, pr.v) ELSE ~e.ret.some
      [] e.op \in {"from_radix_le", "from_radix_be"} ->
            LET ds == IF e.op = "from_radix_le" THEN Reverse(e.digits) ELSE e.digits IN
            IF FromRadixOK(ds, e.radix)
            THEN e.ret.some /\ PostIs1(e, OfSignMag(IF Has(e, "sgn") THEN e.sgn ELSE 1, ZNat(ValueMsb(ds, e.radix))))
            ELSE ~e.ret.some
      [] e.op = "iter" -> IterOK(S(e, 1), e.w, e.ret.calls)
      [] e.op = "from_biguint"  -> PostIs1(e, OfSignMag(e.sgn, S(e, 1)))
      [] e.op = "clone"         -> PostIs1(e, S(e, 1))
      [] e.op = "arbitrary"     -> TRUE      \* any value may be generated; the representation rule (NonCanon) is what is asked
      [] e.op \in {"add", "checked_add"} -> PostIs1(e, AddR(A(e, 1), A(e, 2)))
      [] e.op \in {"sub", "checked_sub"} -> PostIs1(e, SubR(A(e, 1), A(e, 2)))
      [] e.op \in {"mul", "checked_mul"} -> PostIs1(e, MulR(A(e, 1), A(e, 2)))
      [] e.op \in DivOps -> DivRule(e)
      [] e.op = "bitand" -> PostIs1(e, ZAnd(A(e, 1), A(e, 2)))
      [] e.op = "bitor"  -> PostIs1(e, ZOr(A(e, 1), A(e, 2)))
      [] e.op = "bitxor" -> PostIs1(e, ZXor(A(e, 1), A(e, 2)))
      [] e.op = "not"    -> PostIs1(e, ZNot(S(e, 1)))
      [] e.op = "shl"    -> PostIs1(e, ShlR(S(e, 1), e.sc[1].m))
      [] e.op = "shr"    -> PostIs1(e, ShrR(S(e, 1), e.sc[1].m))
      [] e.op = "bit"    -> e.ret.b = BitR(S(e, 1), e.sc[1].m)
      [] e.op = "set_bit" -> PostIs1(e, SetBitR(S(e, 1), e.sc[1].m, e.v))
      [] e.op = "bits"   -> e.ret.n = BitLen(S(e, 1).d)
      [] e.op = "trailing_zeros" -> IF S(e, 1).s = 0 THEN ~e.ret.some
                                    ELSE e.ret.some /\ e.ret.n = TrailingZeros(S(e, 1).d)
      [] e.op = "trailing_ones"  -> e.ret.n = TrailingOnes(S(e, 1).d)
      [] e.op = "count_ones"     -> e.ret.n = CountOnes(S(e, 1).d)
      [] e.op = "rem_prim" -> IsTruncDivRem(A(e, 1), A(e, 2), Adopt(e.hint[1]), SCV(e.ret.z[1]))
      [] e.op = "sum" -> PostIs1(e, FoldLeft(LAMBDA acc, k: ZAdd(acc, S(e, k)), ZZero, [k \in 1..Len(e.src) |-> k]))
      [] e.op = "product" -> PostIs1(e, FoldLeft(LAMBDA acc, k: ZMul(acc, S(e, k)), ZOne, [k \in 1..Len(e.src) |-> k]))
      [] e.op = "cost_table" -> CostTableOK(e.bal, e.unbal)
      [] e.op = "cost_sparse" -> CostSparseOK(e.bal, e.unbal)
      [] e.op = "obs" ->
            LET x == S(e, 1)  y == S(e, 2)  c == ZCmp(x, y) IN
            /\ e.ret.b = (c = 0) /\ e.ret.ne = (c # 0)
            /\ e.ret.n = c /\ e.ret.pc = c
            /\ e.ret.lt = (c < 0) /\ e.ret.ge = (c >= 0)
            /\ e.ret.maxb = (c <= 0)                      \* max(x, y) is y unless x > y (equal values are the same integer)
            /\ (c = 0 => e.ret.ha = e.ret.hb)             \* equal values hash identically; nothing is asked of unequal ones
      [] e.op = "is_multiple_of" ->
            LET a == A(e, 1)  b == A(e, 2)  q == Adopt(e.hint[1])  r == ZSub(a, ZMul(q, b)) IN
            IF b.s = 0 THEN e.ret.b = (a.s = 0)
            ELSE IsTruncDivRem(a, b, q, r) /\ e.ret.b = (r.s = 0)
      [] OTHER -> FALSE     \* an event the specification does not know is never accepted

\* "ok", or why the event is rejected
Reason(e) ==
    IF e.out = "crash" THEN "crash"
    ELSE IF ~e.same THEN "srcmod"
    ELSE IF e.out = "panic" THEN (IF Fails(e) /\ ~IsChecked(e) THEN "ok" ELSE "unexpected_panic")
    ELSE IF IsChecked(e) /\ ~e.ret.some THEN (IF Fails(e) THEN "ok" ELSE "unexpected_none")
    ELSE IF Fails(e) THEN "missing_failure"
    ELSE IF ~Rule(e) THEN "value"
    ELSE "ok"
\* representation rule, judged independently of the value rule: every register written by a call that
\* returned normally is in canonical form (no high zero digit, NoSign exactly for zero)
NonCanon(e) == e.out = "ok" /\ ~AllPostCanon(e)

\* text rule, judged independently as well: whatever a text-producing call returns (even one that should have
\* refused its radix) consists of ASCII bytes only - the String is built without a UTF-8 check
NonAscii(e) == e.out = "ok" /\ e.op \in {"to_str_radix", "fmt"} /\ \E k \in 1..Len(e.ret.text) : e.ret.text[k] >= 128

----------------------------------------------------------------------------
\* what a register holds after the event: the logged value, made canonical so
\* that later rules are evaluated on well-formed operands even after a BAD event
DstIndex(e, r) == SelectInSeq(e.dst, LAMBDA x: x = r)

Init == l = 1 /\ regs = [r \in 1..NRegs |-> ZZero]

Step ==
    /\ l <= Len(Ev)
    /\ LET e == Ev[l] IN
       IF e.op = "case" THEN regs' = [r \in 1..NRegs |-> ZZero]
       ELSE /\ regs' = [r \in 1..NRegs |->
                          LET k == DstIndex(e, r) IN
                          IF k = 0 THEN regs[r]
                          ELSE IF e.out = "ok" /\ k <= Len(e.post) THEN Adopt(e.post[k]) ELSE ZZero]
            /\ LET why == Reason(e) IN IF why = "ok" THEN TRUE ELSE PrintT(<<"BAD", l, e.op, e.form, why>>)
            /\ IF NonCanon(e) THEN PrintT(<<"BAD", l, e.op, e.form, "noncanon">>) ELSE TRUE
            /\ IF NonAscii(e) THEN PrintT(<<"BAD", l, e.op, e.form, "nonascii">>) ELSE TRUE
    /\ l' = l + 1

Spec == Init /\ [][Step]_vars

\* every line was consumed
Accepted == IF TLCGet("stats").diameter = Len(Ev) + 1
            THEN PrintT(<<"TRACE_CONSUMED", Len(Ev)>>)
            ELSE PrintT(<<"TRACE_STUCK", TLCGet("stats").diameter>>) /\ FALSE
=============================================================================
