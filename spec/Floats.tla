------------------------------- MODULE Floats -------------------------------
(***************************************************************************)
(* IEEE-754 binary interchange formats on bit patterns held as BigNat      *)
(* values (Base must be a power of two).  p = significand precision        *)
(* including the hidden bit (24 / 53), ebits = exponent field width        *)
(* (8 / 11).  Only integers are converted, so no subnormal results occur   *)
(* on the way out; on the way in every finite pattern is decoded.          *)
(***************************************************************************)
EXTENDS BigZ

Bias(ebits) == 2 ^ (ebits - 1) - 1

(* bit pattern of the float nearest to the integer (-1)^neg * mag, ties to even; +-infinity when the
   rounded value exceeds the finite range; zero gives +0.0 *)
FloatBitsOf(neg, mag, p, ebits) ==
    LET signbit == IF neg THEN PowerOfTwo(ebits + p - 1) ELSE <<>> IN
    IF mag = <<>> THEN <<>>
    ELSE
    LET n == BitLen(mag)
        \* p-bit significand (leading one included) and whether rounding carried into the next binade
        sig ==
            IF n <= p THEN [m |-> Shl(mag, p - n), carry |-> 0]
            ELSE LET sh     == n - p
                     top    == Shr(mag, sh)
                     half   == Bit(mag, sh - 1)
                     sticky == LowBits(mag, sh - 1) # <<>>
                     up     == half = 1 /\ (sticky \/ Bit(top, 0) = 1)
                     t2     == IF up THEN AddSmall(top, 1) ELSE top
                 IN IF BitLen(t2) > p THEN [m |-> PowerOfTwo(p - 1), carry |-> 1] ELSE [m |-> t2, carry |-> 0]
        e  == n - 1 + sig.carry
    IN IF e > Bias(ebits)
       THEN Add(signbit, Shl(OfInt(2 ^ ebits - 1), p - 1))                      \* infinity
       ELSE Add(signbit, Add(Shl(OfInt(e + Bias(ebits)), p - 1), Sub(sig.m, PowerOfTwo(p - 1))))

(* decode a bit pattern: [finite, neg, mag] with mag = the value truncated toward zero *)
FloatTrunc(bits, p, ebits) ==
    LET frac == LowBits(bits, p - 1)
        ex   == Val(LowBits(Shr(bits, p - 1), ebits))
        neg  == Bit(bits, ebits + p - 1) = 1
    IN IF ex = 2 ^ ebits - 1 THEN [finite |-> FALSE, neg |-> neg, mag |-> <<>>]
       ELSE IF ex = 0 THEN [finite |-> TRUE, neg |-> neg, mag |-> <<>>]              \* zero and subnormals: |x| < 1
       ELSE LET mant == Add(frac, PowerOfTwo(p - 1))
                E    == ex - Bias(ebits) - (p - 1)
            IN [finite |-> TRUE, neg |-> neg,
                mag |-> IF E >= 0 THEN Shl(mant, E) ELSE Shr(mant, -E)]
=============================================================================
