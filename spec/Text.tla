-------------------------------- MODULE Text --------------------------------
(***************************************************************************)
(* L0/L1 for positional text: digit strings in radix 2..256, ASCII digit   *)
(* alphabet for radix <= 36, the accepted input language, and the standard *)
(* library's integer padding rules (core::fmt pad_integral) on sequences   *)
(* of character codes.                                                     *)
(***************************************************************************)
EXTENDS BigZ

\* largest c >= 1 with radix^c < 2^23 (so that radix^c * Base stays below 2^31 at Base = 256)
RECURSIVE ChunkLenFrom(_, _, _)
ChunkLenFrom(radix, c, p) == IF p * radix >= 8388608 THEN c ELSE ChunkLenFrom(radix, c + 1, p * radix)
ChunkLen(radix) == ChunkLenFrom(radix, 1, radix)
RECURSIVE IntPow(_, _)
IntPow(b, e) == IF e = 0 THEN 1 ELSE b * IntPow(b, e - 1)

\* value of a digit string, most significant first (digits assumed < radix)
ValueMsb(ds, radix) == LET c == ChunkLen(radix) IN FromRadixMsbChunked(ds, radix, c, IntPow(radix, c))

\* ds is THE digit string of mag: no leading zero (zero is the single digit 0), every digit below the radix
IsDigitsOf(ds, mag, radix) ==
    /\ Len(ds) >= 1
    /\ \A k \in 1..Len(ds) : ds[k] >= 0 /\ ds[k] < radix
    /\ (Len(ds) = 1 \/ ds[1] # 0)
    /\ ValueMsb(ds, radix) = mag

\* functional form for small values: repeated division by the radix
RECURSIVE ToDigitsMsbAcc(_, _, _)
ToDigitsMsbAcc(mag, radix, acc) ==
    IF mag = <<>> THEN acc
    ELSE LET qr == DivModSmall(mag, radix) IN ToDigitsMsbAcc(qr[1], radix, <<qr[2]>> \o acc)
ToDigitsMsb(mag, radix) == IF mag = <<>> THEN <<0>> ELSE ToDigitsMsbAcc(mag, radix, <<>>)

DigitChar(d, upper) == IF d < 10 THEN 48 + d ELSE (IF upper THEN 55 ELSE 87) + d
CharDigit(c) == IF c >= 48 /\ c <= 57 THEN c - 48
                ELSE IF c >= 97 /\ c <= 122 THEN c - 87
                ELSE IF c >= 65 /\ c <= 90 THEN c - 55
                ELSE 999

\* text is THE representation of v in radix (2..36): '-' for negatives, lower-case unless upper
IsTextOf(text, v, radix, upper) ==
    LET neg  == v.s < 0
        body == IF neg /\ Len(text) >= 1 THEN Tail(text) ELSE text
    IN /\ (neg => Len(text) >= 2 /\ text[1] = 45)
       /\ \A k \in 1..Len(body) : CharDigit(body[k]) < radix /\ body[k] = DigitChar(CharDigit(body[k]), upper)
       /\ IsDigitsOf([k \in 1..Len(body) |-> CharDigit(body[k])], v.d, radix)

(* The accepted input language: one optional sign ('+' for both types, '-' only when signed),
   then a digit, then digits (either case, below the radix) or '_'.  Result [ok, v]. *)
ParseText(text, radix, signed) ==
    LET hasSign == Len(text) >= 1 /\ (text[1] = 43 \/ (signed /\ text[1] = 45))
        neg     == hasSign /\ text[1] = 45
        body    == IF hasSign THEN Tail(text) ELSE text
        ok      == /\ Len(body) >= 1
                   /\ body[1] # 95
                   /\ \A k \in 1..Len(body) : body[k] = 95 \/ CharDigit(body[k]) < radix
        kept    == SelectSeq(body, LAMBDA c: c # 95)
        ds      == [k \in 1..Len(kept) |-> CharDigit(kept[k])]
    IN IF ok THEN [ok |-> TRUE, v |-> Z(IF neg THEN -1 ELSE 1, ValueMsb(ds, radix))]
       ELSE [ok |-> FALSE, v |-> ZZero]

(* core::fmt::Formatter::pad_integral on character codes.
   align: 0 none (= right for numbers), 1 left, 2 center, 3 right *)
Rep(c, n) == [k \in 1..n |-> c]
PadIntegral(neg, plus, alt, zero, width, fill, align, prefix, digs) ==
    LET sign == IF neg THEN <<45>> ELSE IF plus THEN <<43>> ELSE <<>>
        pre  == IF alt THEN prefix ELSE <<>>
        body == sign \o pre \o digs
        n    == width - Len(body)
    IN IF n <= 0 THEN body
       ELSE IF zero THEN sign \o pre \o Rep(48, n) \o digs
       ELSE IF align = 1 THEN body \o Rep(fill, n)
       ELSE IF align = 2 THEN Rep(fill, n \div 2) \o body \o Rep(fill, n - (n \div 2))
       ELSE Rep(fill, n) \o body

FmtRadix(kind)  == CASE kind = "d" -> 10 [] kind = "b" -> 2 [] kind = "o" -> 8 [] kind = "x" -> 16 [] kind = "X" -> 16
FmtPrefix(kind) == CASE kind = "d" -> <<>> [] kind = "b" -> <<48, 98>> [] kind = "o" -> <<48, 111>>
                     [] kind = "x" -> <<48, 120>> [] kind = "X" -> <<48, 120>>
FormatR(v, sp) ==
    LET ds == ToDigitsMsb(v.d, FmtRadix(sp.kind))
        digs == [k \in 1..Len(ds) |-> DigitChar(ds[k], sp.kind = "X")]
    IN PadIntegral(v.s < 0, sp.plus, sp.alt, sp.zero, sp.width, sp.fill, sp.align, FmtPrefix(sp.kind), digs)
=============================================================================
