SPECIFICATION Spec
INVARIANT Enumerated
POSTCONDITION Accepted
CHECK_DEADLOCK FALSE
