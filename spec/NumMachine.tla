----------------------------- MODULE NumMachine -----------------------------
(***************************************************************************)
(* Binding R: a register machine over TLC integers whose actions are the   *)
(* public operations of the library, defined here directly by integer      *)
(* arithmetic (a second, independent formulation of the L1 rules: floor    *)
(* division is TLC's \div, two's complement bits are floor-division bits). *)
(* Registers 1..NU hold BigUint values (>= 0), NU+1..NU+NI hold BigInt     *)
(* values.  Every action appends to the history h what the real code must  *)
(* do: the operation, its form, the operands, and either the new register  *)
(* contents / returned primitive or PANIC.  TLC enumerates or simulates  *)
(* behaviours; every behaviour of length Depth is printed as one REPLAY    *)
(* line which the harness executes on real objects, comparing after each   *)
(* step (`harness replay-machine`).                                        *)
(***************************************************************************)
EXTENDS Integers, Sequences, TLC, Json
CONSTANTS NU, NI, Seeds, MaxAbs, Depth
VARIABLES regs, h
vars == <<regs, h>>
N == NU + NI
SeedsDefault == {-64, -9, -1, 0, 1, 2, 3, 7, 8, 12, 63, 64}     \* cfg files cannot write negative numbers
SeedsSmall == {-2, -1, 0, 1, 2, 5}
SeedsTiny == {-3, 0, 1, 6}
PANIC == 1000003        \* marker value: the call must panic (outside every value range used)
IsU(r) == r <= NU
Abs(v) == IF v < 0 THEN -v ELSE v
Sgn(v) == IF v < 0 THEN -1 ELSE IF v = 0 THEN 0 ELSE 1
RECURSIVE Pw(_, _)
Pw(b, k) == IF k = 0 THEN 1 ELSE b * Pw(b, k - 1)
RECURSIVE GcdN(_, _)
GcdN(a, b) == IF b = 0 THEN a ELSE GcdN(b, a % b)
\* truncated division from floor division
TQ(a, b) == Sgn(a) * Sgn(b) * (Abs(a) \div Abs(b))
TR(a, b) == a - TQ(a, b) * b
EQ(a, b) == IF TR(a, b) < 0 THEN (IF b > 0 THEN TQ(a, b) - 1 ELSE TQ(a, b) + 1) ELSE TQ(a, b)
CQ(a, b) == -((-a) \div b)
\* bits of the infinite two's complement expansion
K == 14        \* more bits than any value the machine holds (MaxAbs < 2^13)
IBit(v, i) == (v \div Pw(2, i)) % 2
RECURSIVE BitsVal(_, _, _, _)
BitsVal(op, a, b, i) == IF i = K THEN 0
                        ELSE LET x == IBit(a, i)  y == IBit(b, i)
                                 r == CASE op = "bitand" -> x * y [] op = "bitor" -> x + y - x * y [] op = "bitxor" -> (x + y) % 2
                             IN r * Pw(2, i) + BitsVal(op, a, b, i + 1)
BitOp(op, a, b) == LET neg == CASE op = "bitand" -> a < 0 /\ b < 0 [] op = "bitor" -> a < 0 \/ b < 0 [] op = "bitxor" -> (a < 0) # (b < 0)
                   IN BitsVal(op, a, b, 0) - (IF neg THEN Pw(2, K) ELSE 0)
RECURSIVE Isqrt(_, _)
Isqrt(v, g) == IF (g + 1) * (g + 1) <= v THEN Isqrt(v, g + 1) ELSE g

BinOps == {"add", "sub", "mul", "div", "rem", "div_floor", "mod_floor", "div_euclid", "rem_euclid", "div_ceil", "bitand", "bitor", "bitxor", "gcd", "lcm",
           "next_multiple_of", "prev_multiple_of", "abs_sub"}
\* floored remainder with the sign of the divisor (TLC's \div is only used with a positive divisor)
FloorDiv(a, b) == IF b > 0 THEN a \div b ELSE (-a) \div (-b)
ModFloor(a, b) == a - FloorDiv(a, b) * b
\* value of a binary operation, or PANIC
BinVal(op, a, b, unsigned) ==
    CASE op = "add" -> a + b
      [] op = "sub" -> IF unsigned /\ a < b THEN PANIC ELSE a - b
      [] op = "mul" -> a * b
      [] op \in {"div", "rem", "div_floor", "mod_floor", "div_euclid", "rem_euclid", "div_ceil"} /\ b = 0 -> PANIC
      [] op = "div" -> TQ(a, b)
      [] op = "rem" -> TR(a, b)
      [] op = "div_floor" -> a \div b
      [] op = "mod_floor" -> a - (a \div b) * b
      [] op = "div_euclid" -> EQ(a, b)
      [] op = "rem_euclid" -> a - EQ(a, b) * b
      [] op = "div_ceil" -> CQ(a, b)
      [] op \in {"bitand", "bitor", "bitxor"} -> BitOp(op, a, b)
      [] op \in {"next_multiple_of", "prev_multiple_of"} /\ b = 0 -> PANIC
      [] op = "next_multiple_of" -> LET m == ModFloor(a, b) IN IF m = 0 THEN a ELSE a + (b - m)     \* the multiple of b reached by moving from a in the direction of b's sign
      [] op = "prev_multiple_of" -> a - ModFloor(a, b)
      [] op = "abs_sub" -> IF a > b THEN a - b ELSE 0
      [] op = "gcd" -> GcdN(Abs(a), Abs(b))
      [] op = "lcm" -> IF a = 0 \/ b = 0 THEN 0 ELSE Abs(a * b) \div GcdN(Abs(a), Abs(b))
UnOps == {"neg", "abs", "signum", "not", "sqrt", "inc", "dec", "set_zero", "set_one"}
UnVal(op, a, unsigned) ==
    CASE op = "neg" -> -a [] op = "abs" -> Abs(a) [] op = "signum" -> Sgn(a) [] op = "not" -> -a - 1
      [] op = "sqrt" -> IF a < 0 THEN PANIC ELSE Isqrt(a, 0)
      [] op = "inc" -> a + 1
      [] op = "dec" -> IF unsigned /\ a = 0 THEN PANIC ELSE a - 1
      [] op = "set_zero" -> 0 [] op = "set_one" -> 1
UnDefined(op, unsigned) == ~(unsigned /\ op \in {"neg", "abs", "signum", "not"})

Small(v) == v = PANIC \/ Abs(v) <= MaxAbs
Log(rec) == h' = Append(h, rec)
Room == Len(h) <= Depth

Init == /\ regs \in [1..N -> Seeds] /\ \A r \in 1..NU : regs[r] >= 0
        /\ h = << [op |-> "init", form |-> 0, a |-> 0, b |-> 0, d |-> 0, k |-> 0, v |-> FALSE, panic |-> FALSE,
                   post |-> [r \in 1..N |-> regs[r]], ret |-> 0, txt |-> <<>>] >>

Bin(op, form, a, b, d) ==
    /\ Room /\ IsU(a) = IsU(b) /\ IsU(a) = IsU(d) /\ a # b
    /\ (op = "abs_sub" => ~IsU(a))
    /\ LET val == BinVal(op, regs[a], regs[b], IsU(a)) IN
       /\ Small(val)
       /\ regs' = [regs EXCEPT ![d] = IF val = PANIC THEN 0 ELSE val]
       /\ Log([op |-> op, form |-> form, a |-> a, b |-> b, d |-> d, k |-> 0, v |-> FALSE, panic |-> (val = PANIC),
               post |-> [r \in 1..N |-> regs'[r]], ret |-> 0, txt |-> <<>>])
Un(op, form, a, d) ==
    /\ Room /\ IsU(a) = IsU(d) /\ UnDefined(op, IsU(a))
    /\ LET val == UnVal(op, regs[a], IsU(a)) IN
       /\ Small(val)
       /\ regs' = [regs EXCEPT ![d] = IF val = PANIC THEN 0 ELSE val]
       /\ Log([op |-> op, form |-> form, a |-> a, b |-> 0, d |-> d, k |-> 0, v |-> FALSE, panic |-> (val = PANIC),
               post |-> [r \in 1..N |-> regs'[r]], ret |-> 0, txt |-> <<>>])
Shift(op, form, a, d, k) ==
    /\ Room /\ IsU(a) = IsU(d)
    /\ LET val == IF k < 0 THEN PANIC ELSE IF op = "shl" THEN regs[a] * Pw(2, k) ELSE regs[a] \div Pw(2, k) IN
       /\ Small(val)
       /\ regs' = [regs EXCEPT ![d] = IF val = PANIC THEN 0 ELSE val]
       /\ Log([op |-> op, form |-> form, a |-> a, b |-> 0, d |-> d, k |-> k, v |-> FALSE, panic |-> (val = PANIC),
               post |-> [r \in 1..N |-> regs'[r]], ret |-> 0, txt |-> <<>>])
SetBit(a, k, v) ==
    /\ Room
    /\ LET cur == IBit(regs[a], k)
           val == IF v THEN regs[a] + (1 - cur) * Pw(2, k) ELSE regs[a] - cur * Pw(2, k) IN
       /\ Small(val)
       /\ regs' = [regs EXCEPT ![a] = val]
       /\ Log([op |-> "set_bit", form |-> 0, a |-> a, b |-> 0, d |-> a, k |-> k, v |-> v, panic |-> FALSE,
               post |-> [r \in 1..N |-> regs'[r]], ret |-> 0, txt |-> <<>>])
PowOp(a, d, k) ==
    /\ Room /\ IsU(a) = IsU(d) /\ Abs(regs[a]) <= 6
    /\ LET val == Pw(regs[a], k) IN
       /\ Small(val)
       /\ regs' = [regs EXCEPT ![d] = val]
       /\ Log([op |-> "pow", form |-> 0, a |-> a, b |-> 0, d |-> d, k |-> k, v |-> FALSE, panic |-> FALSE,
               post |-> [r \in 1..N |-> regs'[r]], ret |-> 0, txt |-> <<>>])
\* observations: cmp / bit / trailing zeros leave the registers alone and return a primitive
Obs(op, a, b, k) ==
    /\ Room /\ IsU(a) = IsU(b)
    /\ UNCHANGED regs
    /\ LET ret == CASE op = "cmp" -> Sgn(regs[a] - regs[b])
                    [] op = "bit" -> IBit(regs[a], k)
                    [] op = "is_multiple_of" -> IF regs[b] = 0 THEN (IF regs[a] = 0 THEN 1 ELSE 0) ELSE (IF regs[a] % Abs(regs[b]) = 0 THEN 1 ELSE 0)
                    [] op = "is_odd" -> regs[a] % 2
                    [] op = "trailing_zeros" -> LET RECURSIVE tz(_) tz(x) == IF (x % 2) = 1 THEN 0 ELSE 1 + tz(x \div 2) IN IF regs[a] = 0 THEN -1 ELSE tz(Abs(regs[a]))
                    [] op = "count_ones" -> LET RECURSIVE co(_) co(x) == IF x = 0 THEN 0 ELSE (x % 2) + co(x \div 2) IN co(Abs(regs[a]))
                    [] op = "bits" -> LET RECURSIVE bl(_) bl(x) == IF x = 0 THEN 0 ELSE 1 + bl(x \div 2) IN bl(Abs(regs[a]))
       IN Log([op |-> op, form |-> 0, a |-> a, b |-> b, d |-> 0, k |-> k, v |-> FALSE, panic |-> FALSE,
               post |-> [r \in 1..N |-> regs[r]], ret |-> ret, txt |-> <<>>])
\* exports: text in a radix, bytes, shortest two's complement bytes, primitive range tests, exact float
RECURSIVE DigitsMsb(_, _)
DigitsMsb(v, r) == IF v < r THEN <<v>> ELSE Append(DigitsMsb(v \div r, r), v % r)
DigitChar(d) == IF d < 10 THEN 48 + d ELSE 87 + d
TextOf(v, r) == LET ds == DigitsMsb(Abs(v), r) IN (IF v < 0 THEN <<45>> ELSE <<>>) \o [k \in 1..Len(ds) |-> DigitChar(ds[k])]
RECURSIVE BytesLE(_)
BytesLE(v) == IF v < 256 THEN <<v>> ELSE <<v % 256>> \o BytesLE(v \div 256)
RECURSIVE NBytes(_, _)
NBytes(v, n) == IF v >= -(Pw(2, 8 * n - 1)) /\ v < Pw(2, 8 * n - 1) THEN n ELSE NBytes(v, n + 1)     \* shortest two's complement length
RECURSIVE FixBytes(_, _)
FixBytes(v, n) == IF n = 0 THEN <<>> ELSE <<v % 256>> \o FixBytes(v \div 256, n - 1)
SignedBytesLE(v) == LET n == NBytes(v, 1) IN FixBytes(IF v < 0 THEN v + Pw(2, 8 * n) ELSE v, n)
Export(op, a, k) ==
    /\ Room /\ UNCHANGED regs
    /\ LET v == regs[a]
           txt == CASE op = "to_str_radix" -> TextOf(v, k)
                    [] op = "to_bytes_le" -> BytesLE(Abs(v))
                    [] op = "to_signed_bytes_le" -> SignedBytesLE(v)
                    [] OTHER -> <<>>
           ret == CASE op = "to_i8" -> (IF v >= -128 /\ v <= 127 THEN 1 ELSE 0)
                    [] op = "to_u8" -> (IF v >= 0 /\ v <= 255 THEN 1 ELSE 0)
                    [] op = "to_i16" -> (IF v >= -32768 /\ v <= 32767 THEN 1 ELSE 0)
                    [] op = "to_f64" -> v                       \* |v| < 2^53: the float is exact
                    [] OTHER -> 0
       IN Log([op |-> op, form |-> 0, a |-> a, b |-> 0, d |-> 0, k |-> k, v |-> FALSE, panic |-> FALSE,
               post |-> [r \in 1..N |-> regs[r]], ret |-> ret, txt |-> txt])

\* imports: the text / bytes of a chosen value are given to the parser; an unsigned register must refuse a minus sign
Import(op, d, val, k) ==
    /\ Room
    /\ LET txt == CASE op = "parse" -> TextOf(val, k)
                    [] op = "from_bytes_le" -> BytesLE(Abs(val)) \o (IF k = 2 THEN <<0, 0>> ELSE <<>>)     \* with high zero bytes
                    [] op = "from_signed_bytes_le" -> SignedBytesLE(val) \o (IF k = 2 THEN (IF val < 0 THEN <<255>> ELSE <<0>>) ELSE <<>>)   \* with sign extension
           fails == op = "parse" /\ IsU(d) /\ val < 0
           nv == IF fails THEN regs[d] ELSE IF op = "from_bytes_le" THEN Abs(val) ELSE val
       IN /\ (IsU(d) /\ op = "from_signed_bytes_le" => val >= 0)
          /\ regs' = [regs EXCEPT ![d] = nv]
          /\ Log([op |-> op, form |-> 0, a |-> 0, b |-> 0, d |-> d, k |-> k, v |-> FALSE, panic |-> FALSE,
                  post |-> [r \in 1..N |-> regs'[r]], ret |-> (IF fails THEN 0 ELSE 1), txt |-> txt])
\* modular exponentiation: the result takes the sign of the modulus (floored), modulus zero and negative exponents panic
RECURSIVE PwMod(_, _, _)
PwMod(x, e, m) == IF e = 0 THEN 1 - ((1 \div m) * m) ELSE LET t == x * PwMod(x, e - 1, m) IN t - (t \div m) * m
ModPow(a, b, d, e) ==
    /\ Room /\ IsU(a) = IsU(b) /\ IsU(a) = IsU(d)
    /\ LET val == IF regs[b] = 0 \/ e < 0 THEN PANIC ELSE PwMod(regs[a], e, regs[b]) IN
       /\ (e < 0 => ~IsU(a))
       /\ regs' = [regs EXCEPT ![d] = IF val = PANIC THEN 0 ELSE val]
       /\ Log([op |-> "modpow", form |-> 0, a |-> a, b |-> b, d |-> d, k |-> e, v |-> FALSE, panic |-> (val = PANIC),
               post |-> [r \in 1..N |-> regs'[r]], ret |-> 0, txt |-> <<>>])
\* modular inverse: Some(x) with 0 <= x < |m| (sign of m for BigInt) and a * x == 1 (mod m), None otherwise; m = 0 panics
ModInv(a, b, d) ==
    /\ Room /\ IsU(a) = IsU(b) /\ IsU(a) = IsU(d)
    /\ LET m == regs[b]  x == regs[a]
           cands == IF m = 0 THEN {} ELSE {c \in (IF m > 0 THEN 0..(m - 1) ELSE (m + 1)..0) : ((x * c - 1) % Abs(m)) = 0}
           some == cands # {}
       IN /\ Abs(m) <= 600
          /\ regs' = [regs EXCEPT ![d] = IF m = 0 THEN 0 ELSE IF some THEN (CHOOSE c \in cands : TRUE) ELSE regs[d]]
          /\ Log([op |-> "modinv", form |-> 0, a |-> a, b |-> b, d |-> d, k |-> 0, v |-> FALSE, panic |-> (m = 0),
                  post |-> [r \in 1..N |-> regs'[r]], ret |-> (IF some THEN 1 ELSE 0), txt |-> <<>>])
\* n-th roots: truncated; n = 0 panics, an even root of a negative value panics, an odd root keeps the sign
RECURSIVE Iroot(_, _, _)
Iroot(x, n, g) == IF Pw(g + 1, n) <= x THEN Iroot(x, n, g + 1) ELSE g
NthRoot(a, d, n) ==
    /\ Room /\ IsU(a) = IsU(d)
    /\ LET x == regs[a]
           val == IF n = 0 \/ (x < 0 /\ (n % 2) = 0) THEN PANIC
                  ELSE IF n >= 14 THEN (IF x = 0 THEN 0 ELSE Sgn(x))       \* |x| <= MaxAbs < 2^14
                  ELSE Sgn(x) * Iroot(Abs(x), n, 0) IN
       /\ regs' = [regs EXCEPT ![d] = IF val = PANIC THEN 0 ELSE val]
       /\ Log([op |-> "nth_root", form |-> 0, a |-> a, b |-> 0, d |-> d, k |-> n, v |-> FALSE, panic |-> (val = PANIC),
               post |-> [r \in 1..N |-> regs'[r]], ret |-> 0, txt |-> <<>>])
\* checked arithmetic: None exactly where the operator would panic, and the destination is then left alone
Checked(op, a, b, d) ==
    /\ Room /\ IsU(a) = IsU(b) /\ IsU(a) = IsU(d)
    /\ LET val == BinVal(op, regs[a], regs[b], IsU(a)) IN
       /\ Small(val)
       /\ regs' = [regs EXCEPT ![d] = IF val = PANIC THEN regs[d] ELSE val]
       /\ Log([op |-> "checked_" \o op, form |-> 0, a |-> a, b |-> b, d |-> d, k |-> 0, v |-> FALSE, panic |-> FALSE,
               post |-> [r \in 1..N |-> regs'[r]], ret |-> (IF val = PANIC THEN 0 ELSE 1), txt |-> <<>>])

\* conversions between the two banks
Convert(a, d) ==
    /\ Room /\ IsU(a) # IsU(d)
    /\ LET ok == IsU(a) \/ regs[a] >= 0 IN     \* to_biguint succeeds exactly for non-negative values
       /\ regs' = [regs EXCEPT ![d] = IF ok THEN regs[a] ELSE 0]
       /\ Log([op |-> "convert", form |-> 0, a |-> a, b |-> 0, d |-> d, k |-> 0, v |-> ok, panic |-> FALSE,
               post |-> [r \in 1..N |-> regs'[r]], ret |-> 0, txt |-> <<>>])

Steps ==
    \/ \E op \in BinOps, form \in 0..4, a, b, d \in 1..N : Bin(op, form, a, b, d)
    \/ \E op \in UnOps, form \in 0..1, a, d \in 1..N : Un(op, form, a, d)
    \/ \E op \in {"shl", "shr"}, form \in 0..2, a, d \in 1..N, k \in (-1)..5 : Shift(op, form, a, d, k)
    \/ \E a \in 1..N, k \in 0..6, v \in BOOLEAN : SetBit(a, k, v)
    \/ \E a, d \in 1..N, k \in 0..3 : PowOp(a, d, k)
    \/ \E op \in {"cmp", "bit", "is_multiple_of", "is_odd", "bits", "trailing_zeros", "count_ones"}, a, b \in 1..N, k \in 0..7 : Obs(op, a, b, k)
    \/ \E a, d \in 1..N, w \in 1..4 : Convert(a, d)
    \/ \E d \in 1..N, val \in {-4096, -129, -1, 0, 7, 64, 255, 4095}, k \in {2, 7, 10, 36} : Import("parse", d, val, k)
    \/ \E op \in {"from_bytes_le", "from_signed_bytes_le"}, d \in 1..N, val \in {-4096, -129, -128, 0, 127, 128, 255, 256, 4095}, k \in 1..2 : Import(op, d, val, k)
    \/ \E a, b, d \in 1..N, e \in (-1)..9 : ModPow(a, b, d, e)
    \/ \E a, b, d \in 1..N, w \in 1..4 : ModInv(a, b, d)
    \/ \E a, d \in 1..N, n \in {0, 1, 2, 3, 4, 5, 13, 14, 64} : NthRoot(a, d, n)
    \/ \E op \in {"add", "sub", "mul", "div"}, a, b, d \in 1..N : Checked(op, a, b, d)
    \* (w only weights the random choice of the simulator towards the rarer actions)
    \/ \E a \in 1..N, k \in {2, 3, 8, 10, 16, 36}, w \in 1..4 : Export("to_str_radix", a, k)
    \/ \E op \in {"to_bytes_le", "to_signed_bytes_le", "to_i8", "to_u8", "to_i16", "to_f64"}, a \in 1..N, w \in 1..4 : Export(op, a, 0)
\* Spec keeps the disjunction at the top: the simulator first draws one disjunct, then one of its successors, and evaluates the
\* invariants on the drawn state only.  SpecB (exhaustive exploration) tests the bound on the history once, before the
\* quantifiers of the actions are expanded.
Next == Steps
Spec == Init /\ [][Next]_vars
NextB == Room /\ Steps
SpecB == Init /\ [][NextB]_vars

\* BigUint registers never go negative (a type invariant of the machine itself)
TypeOK == \A r \in 1..NU : regs[r] >= 0
Emit == Len(h) = Depth + 1 => PrintT(<<"REPLAY", ToJson(h)>>)
=============================================================================
