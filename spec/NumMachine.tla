----------------------------- MODULE NumMachine -----------------------------
(***************************************************************************)
(* Binding R: a register machine over TLC integers whose actions are the   *)
(* public operations of the library, defined here directly by integer      *)
(* arithmetic (a second, independent formulation of the L1 rules: floor    *)
(* division is TLC's \div, two's complement bits are floor-division bits). *)
(* Registers 1..NU hold BigUint values (>= 0), NU+1..NU+NI hold BigInt     *)
(* values.  Every action appends to the history h what the real code must  *)
(* do: the operation, its form, the operands, and either the new register  *)
(* contents / returned primitive or PANIC.  TLC enumerates or simulates  *)
(* behaviours; every behaviour of length Depth is printed as one REPLAY    *)
(* line which the harness executes on real objects, comparing after each   *)
(* step (`harness replay-machine`).                                        *)
(***************************************************************************)
EXTENDS Integers, Sequences, TLC, Json
CONSTANTS NU, NI, Seeds, MaxAbs, Depth
VARIABLES regs, h
vars == <<regs, h>>
N == NU + NI
SeedsDefault == {-64, -9, -1, 0, 1, 2, 3, 7, 8, 12, 63, 64}     \* cfg files cannot write negative numbers
SeedsSmall == {-2, -1, 0, 1, 2, 5}
PANIC == 1000003        \* marker value: the call must panic (outside every value range used)
IsU(r) == r <= NU
Abs(v) == IF v < 0 THEN -v ELSE v
Sgn(v) == IF v < 0 THEN -1 ELSE IF v = 0 THEN 0 ELSE 1
RECURSIVE Pw(_, _)
Pw(b, k) == IF k = 0 THEN 1 ELSE b * Pw(b, k - 1)
RECURSIVE GcdN(_, _)
GcdN(a, b) == IF b = 0 THEN a ELSE GcdN(b, a % b)
\* truncated division from floor division
TQ(a, b) == Sgn(a) * Sgn(b) * (Abs(a) \div Abs(b))
TR(a, b) == a - TQ(a, b) * b
EQ(a, b) == IF TR(a, b) < 0 THEN (IF b > 0 THEN TQ(a, b) - 1 ELSE TQ(a, b) + 1) ELSE TQ(a, b)
CQ(a, b) == -((-a) \div b)
\* bits of the infinite two's complement expansion
K == 14        \* more bits than any value the machine holds (MaxAbs < 2^13)
IBit(v, i) == (v \div Pw(2, i)) % 2
RECURSIVE BitsVal(_, _, _, _)
BitsVal(op, a, b, i) == IF i = K THEN 0
                        ELSE LET x == IBit(a, i)  y == IBit(b, i)
                                 r == CASE op = "bitand" -> x * y [] op = "bitor" -> x + y - x * y [] op = "bitxor" -> (x + y) % 2
                             IN r * Pw(2, i) + BitsVal(op, a, b, i + 1)
BitOp(op, a, b) == LET neg == CASE op = "bitand" -> a < 0 /\ b < 0 [] op = "bitor" -> a < 0 \/ b < 0 [] op = "bitxor" -> (a < 0) # (b < 0)
                   IN BitsVal(op, a, b, 0) - (IF neg THEN Pw(2, K) ELSE 0)
RECURSIVE Isqrt(_, _)
Isqrt(v, g) == IF (g + 1) * (g + 1) <= v THEN Isqrt(v, g + 1) ELSE g

BinOps == {"add", "sub", "mul", "div", "rem", "div_floor", "mod_floor", "div_euclid", "rem_euclid", "div_ceil", "bitand", "bitor", "bitxor", "gcd", "lcm"}
\* value of a binary operation, or PANIC
BinVal(op, a, b, unsigned) ==
    CASE op = "add" -> a + b
      [] op = "sub" -> IF unsigned /\ a < b THEN PANIC ELSE a - b
      [] op = "mul" -> a * b
      [] op \in {"div", "rem", "div_floor", "mod_floor", "div_euclid", "rem_euclid", "div_ceil"} /\ b = 0 -> PANIC
      [] op = "div" -> TQ(a, b)
      [] op = "rem" -> TR(a, b)
      [] op = "div_floor" -> a \div b
      [] op = "mod_floor" -> a - (a \div b) * b
      [] op = "div_euclid" -> EQ(a, b)
      [] op = "rem_euclid" -> a - EQ(a, b) * b
      [] op = "div_ceil" -> CQ(a, b)
      [] op \in {"bitand", "bitor", "bitxor"} -> BitOp(op, a, b)
      [] op = "gcd" -> GcdN(Abs(a), Abs(b))
      [] op = "lcm" -> IF a = 0 \/ b = 0 THEN 0 ELSE Abs(a * b) \div GcdN(Abs(a), Abs(b))
UnOps == {"neg", "abs", "signum", "not", "sqrt", "inc", "dec", "set_zero", "set_one"}
UnVal(op, a, unsigned) ==
    CASE op = "neg" -> -a [] op = "abs" -> Abs(a) [] op = "signum" -> Sgn(a) [] op = "not" -> -a - 1
      [] op = "sqrt" -> IF a < 0 THEN PANIC ELSE Isqrt(a, 0)
      [] op = "inc" -> a + 1
      [] op = "dec" -> IF unsigned /\ a = 0 THEN PANIC ELSE a - 1
      [] op = "set_zero" -> 0 [] op = "set_one" -> 1
UnDefined(op, unsigned) == ~(unsigned /\ op \in {"neg", "abs", "signum", "not"})

Small(v) == v = PANIC \/ Abs(v) <= MaxAbs
Log(rec) == h' = Append(h, rec)
Room == Len(h) <= Depth

Init == /\ regs \in [1..N -> Seeds] /\ \A r \in 1..NU : regs[r] >= 0
        /\ h = << [op |-> "init", form |-> 0, a |-> 0, b |-> 0, d |-> 0, k |-> 0, v |-> FALSE, panic |-> FALSE,
                   post |-> [r \in 1..N |-> regs[r]], ret |-> 0] >>

Bin(op, form, a, b, d) ==
    /\ Room /\ IsU(a) = IsU(b) /\ IsU(a) = IsU(d) /\ a # b
    /\ LET val == BinVal(op, regs[a], regs[b], IsU(a)) IN
       /\ Small(val)
       /\ regs' = [regs EXCEPT ![d] = IF val = PANIC THEN 0 ELSE val]
       /\ Log([op |-> op, form |-> form, a |-> a, b |-> b, d |-> d, k |-> 0, v |-> FALSE, panic |-> (val = PANIC),
               post |-> [r \in 1..N |-> regs'[r]], ret |-> 0])
Un(op, form, a, d) ==
    /\ Room /\ IsU(a) = IsU(d) /\ UnDefined(op, IsU(a))
    /\ LET val == UnVal(op, regs[a], IsU(a)) IN
       /\ Small(val)
       /\ regs' = [regs EXCEPT ![d] = IF val = PANIC THEN 0 ELSE val]
       /\ Log([op |-> op, form |-> form, a |-> a, b |-> 0, d |-> d, k |-> 0, v |-> FALSE, panic |-> (val = PANIC),
               post |-> [r \in 1..N |-> regs'[r]], ret |-> 0])
Shift(op, form, a, d, k) ==
    /\ Room /\ IsU(a) = IsU(d)
    /\ LET val == IF k < 0 THEN PANIC ELSE IF op = "shl" THEN regs[a] * Pw(2, k) ELSE regs[a] \div Pw(2, k) IN
       /\ Small(val)
       /\ regs' = [regs EXCEPT ![d] = IF val = PANIC THEN 0 ELSE val]
       /\ Log([op |-> op, form |-> form, a |-> a, b |-> 0, d |-> d, k |-> k, v |-> FALSE, panic |-> (val = PANIC),
               post |-> [r \in 1..N |-> regs'[r]], ret |-> 0])
SetBit(a, k, v) ==
    /\ Room
    /\ LET cur == IBit(regs[a], k)
           val == IF v THEN regs[a] + (1 - cur) * Pw(2, k) ELSE regs[a] - cur * Pw(2, k) IN
       /\ Small(val)
       /\ regs' = [regs EXCEPT ![a] = val]
       /\ Log([op |-> "set_bit", form |-> 0, a |-> a, b |-> 0, d |-> a, k |-> k, v |-> v, panic |-> FALSE,
               post |-> [r \in 1..N |-> regs'[r]], ret |-> 0])
PowOp(a, d, k) ==
    /\ Room /\ IsU(a) = IsU(d) /\ Abs(regs[a]) <= 6
    /\ LET val == Pw(regs[a], k) IN
       /\ Small(val)
       /\ regs' = [regs EXCEPT ![d] = val]
       /\ Log([op |-> "pow", form |-> 0, a |-> a, b |-> 0, d |-> d, k |-> k, v |-> FALSE, panic |-> FALSE,
               post |-> [r \in 1..N |-> regs'[r]], ret |-> 0])
\* observations: cmp / bit / trailing zeros leave the registers alone and return a primitive
Obs(op, a, b, k) ==
    /\ Room /\ IsU(a) = IsU(b)
    /\ UNCHANGED regs
    /\ LET ret == CASE op = "cmp" -> Sgn(regs[a] - regs[b])
                    [] op = "bit" -> IBit(regs[a], k)
                    [] op = "is_multiple_of" -> IF regs[b] = 0 THEN (IF regs[a] = 0 THEN 1 ELSE 0) ELSE (IF regs[a] % Abs(regs[b]) = 0 THEN 1 ELSE 0)
                    [] op = "is_odd" -> regs[a] % 2
                    [] op = "bits" -> LET RECURSIVE bl(_) bl(x) == IF x = 0 THEN 0 ELSE 1 + bl(x \div 2) IN bl(Abs(regs[a]))
       IN Log([op |-> op, form |-> 0, a |-> a, b |-> b, d |-> 0, k |-> k, v |-> FALSE, panic |-> FALSE,
               post |-> [r \in 1..N |-> regs[r]], ret |-> ret])
\* conversions between the two banks
Convert(a, d) ==
    /\ Room /\ IsU(a) # IsU(d)
    /\ LET ok == IsU(a) \/ regs[a] >= 0 IN     \* to_biguint succeeds exactly for non-negative values
       /\ regs' = [regs EXCEPT ![d] = IF ok THEN regs[a] ELSE 0]
       /\ Log([op |-> "convert", form |-> 0, a |-> a, b |-> 0, d |-> d, k |-> 0, v |-> ok, panic |-> FALSE,
               post |-> [r \in 1..N |-> regs'[r]], ret |-> 0])

Next ==
    \/ \E op \in BinOps, form \in 0..3, a, b, d \in 1..N : Bin(op, form, a, b, d)
    \/ \E op \in UnOps, form \in 0..1, a, d \in 1..N : Un(op, form, a, d)
    \/ \E op \in {"shl", "shr"}, form \in 0..2, a, d \in 1..N, k \in (-1)..5 : Shift(op, form, a, d, k)
    \/ \E a \in 1..N, k \in 0..6, v \in BOOLEAN : SetBit(a, k, v)
    \/ \E a, d \in 1..N, k \in 0..3 : PowOp(a, d, k)
    \/ \E op \in {"cmp", "bit", "is_multiple_of", "is_odd", "bits"}, a, b \in 1..N, k \in 0..7 : Obs(op, a, b, k)
    \/ \E a, d \in 1..N : Convert(a, d)
Spec == Init /\ [][Next]_vars

\* BigUint registers never go negative (a type invariant of the machine itself)
TypeOK == \A r \in 1..NU : regs[r] >= 0
Emit == Len(h) = Depth + 1 => PrintT(<<"REPLAY", ToJson(h)>>)
=============================================================================
