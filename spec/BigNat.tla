------------------------------- MODULE BigNat -------------------------------
(***************************************************************************)
(* L0 value algebra: natural numbers as little-endian digit sequences in   *)
(* base Base, canonical form = no high zero digit (<<>> is zero).          *)
(* Every operator is total on canonical inputs.  The same text is used at  *)
(* Base = 256 for trace validation and at small bases in mc/BigNatMC.tla   *)
(* where TLC compares each operator with its own integer arithmetic.       *)
(* "Small" arguments (k, r, nbits ...) are TLC integers; k * Base must     *)
(* stay below 2^31.                                                        *)
(***************************************************************************)
EXTENDS Integers, Sequences, SequencesExt, Bitwise
CONSTANT Base

MaxI(x, y) == IF x >= y THEN x ELSE y
MinI(x, y) == IF x <= y THEN x ELSE y
Idx(n)     == [i \in 1..n |-> i]

Dig(s, i)  == IF i >= 1 /\ i <= Len(s) THEN s[i] ELSE 0
Norm(s)    == SubSeq(s, 1, SelectLastInSeq(s, LAMBDA d: d # 0))
IsDigits(s) == \A i \in 1..Len(s) : s[i] \in 0..(Base - 1)
IsCanon(s) == IF Len(s) = 0 THEN TRUE ELSE s[Len(s)] # 0
Zeros(n)   == [i \in 1..n |-> 0]

RECURSIVE CarryTail(_, _)
CarryTail(c, out) == IF c = 0 THEN out ELSE CarryTail(c \div Base, Append(out, c % Base))

\* small integer -> digits
OfInt(k) == CarryTail(k, <<>>)

\* digits -> TLC integer (only for values known to be small)
Val(s) == FoldRight(LAMBDA d, acc: acc * Base + d, s, 0)

Cmp(a, b) ==
    IF Len(a) # Len(b) THEN (IF Len(a) < Len(b) THEN -1 ELSE 1)
    ELSE LET k == SelectLastInSeq([i \in 1..Len(a) |-> a[i] - b[i]], LAMBDA d: d # 0)
         IN IF k = 0 THEN 0 ELSE IF a[k] < b[k] THEN -1 ELSE 1

Add(a, b) ==
    LET n == MaxI(Len(a), Len(b))
        step(st, i) == LET t == Dig(a, i) + Dig(b, i) + st[1]
                       IN << t \div Base, Append(st[2], t % Base) >>
        r == FoldLeft(step, <<0, <<>> >>, Idx(n))
    IN IF r[1] = 0 THEN r[2] ELSE Append(r[2], r[1])

\* a - b, requires a >= b
Sub(a, b) ==
    LET step(st, i) == LET t == a[i] - Dig(b, i) - st[1]
                       IN << IF t < 0 THEN 1 ELSE 0, Append(st[2], t % Base) >>
        r == FoldLeft(step, <<0, <<>> >>, Idx(Len(a)))
    IN Norm(r[2])

\* |a - b|
AbsDiff(a, b) == IF Cmp(a, b) >= 0 THEN Sub(a, b) ELSE Sub(b, a)

\* a * k + c for small k, c (k * Base + c < 2^31)
MulAddSmall(a, k, c) ==
    LET step(st, d) == LET t == d * k + st[1]
                       IN << t \div Base, Append(st[2], t % Base) >>
        r == FoldLeft(step, <<c, <<>> >>, a)
    IN Norm(CarryTail(r[1], r[2]))
MulSmall(a, k) == MulAddSmall(a, k, 0)
AddSmall(a, c) == MulAddSmall(a, 1, c)

\* <<quotient, remainder>> for small k >= 1 (k * Base < 2^31)
DivModSmall(a, k) ==
    LET step(d, st) == LET t == st[1] * Base + d
                       IN << t % k, <<t \div k>> \o st[2] >>
        r == FoldRight(step, a, <<0, <<>> >>)
    IN << Norm(r[2]), r[1] >>
ModSmall(a, k) == FoldRight(LAMBDA d, rem: (rem * Base + d) % k, a, 0)

Mul(a, b) ==
    IF a = <<>> \/ b = <<>> THEN <<>> ELSE
    LET n == Len(a)  m == Len(b)
        col(k) == LET lo == MaxI(1, k + 1 - m)  hi == MinI(n, k)
                  IN FoldLeft(LAMBDA acc, i: acc + a[i] * b[k + 1 - i], 0,
                              [i \in 1..(hi - lo + 1) |-> lo + i - 1])
        step(st, k) == LET t == col(k) + st[1]
                       IN << t \div Base, Append(st[2], t % Base) >>
        r == FoldLeft(step, <<0, <<>> >>, Idx(n + m - 1))
    IN Norm(CarryTail(r[1], r[2]))

\* binary expansion of a small integer, most significant bit first
RECURSIVE IntBitsMsb(_)
IntBitsMsb(e) == IF e = 0 THEN <<>> ELSE Append(IntBitsMsb(e \div 2), e % 2)

\* a^e for a small integer exponent e >= 0 (0^0 = 1)
Pow(a, e) ==
    FoldLeft(LAMBDA acc, bit: LET s == Mul(acc, acc) IN IF bit = 1 THEN Mul(s, a) ELSE s,
             <<1>>, IntBitsMsb(e))

----------------------------------------------------------------------------
(* Bit level.  DigitBits = log2(Base) is only meaningful for power-of-two  *)
(* bases; the bit operators below are used with such bases only.           *)
RECURSIVE Log2(_)
Log2(n) == IF n <= 1 THEN 0 ELSE 1 + Log2(n \div 2)
DigitBits == Log2(Base)

\* number of significant bits of a small integer
RECURSIVE IntBitLen(_)
IntBitLen(k) == IF k = 0 THEN 0 ELSE 1 + IntBitLen(k \div 2)
RECURSIVE IntTz(_)
IntTz(k) == IF k % 2 = 1 THEN 0 ELSE 1 + IntTz(k \div 2)
RECURSIVE IntOnes(_)
IntOnes(k) == IF k = 0 THEN 0 ELSE (k % 2) + IntOnes(k \div 2)

BitLen(a) == IF a = <<>> THEN 0 ELSE (Len(a) - 1) * DigitBits + IntBitLen(a[Len(a)])

\* index of the lowest non-zero digit (0 if none)
LowNz(a) == SelectInSeq(a, LAMBDA d: d # 0)
\* trailing zero bits of a non-zero value
TrailingZeros(a) == LET k == LowNz(a) IN (k - 1) * DigitBits + IntTz(a[k])
CountOnes(a) == FoldLeft(LAMBDA acc, d: acc + IntOnes(d), 0, a)
\* trailing one bits
TrailingOnes(a) ==
    LET k == SelectInSeq(a, LAMBDA d: d # Base - 1)
    IN IF k = 0 THEN Len(a) * DigitBits
       ELSE (k - 1) * DigitBits + IntTz(a[k] + 1)

Bit(a, i) == (Dig(a, (i \div DigitBits) + 1) \div (2 ^ (i % DigitBits))) % 2

Shl(a, n) ==
    IF a = <<>> THEN <<>> ELSE
    Zeros(n \div DigitBits) \o MulSmall(a, 2 ^ (n % DigitBits))
Shr(a, n) ==
    LET q == n \div DigitBits
    IN IF q >= Len(a) THEN <<>>
       ELSE DivModSmall(SubSeq(a, q + 1, Len(a)), 2 ^ (n % DigitBits))[1]
\* a mod 2^n
LowBits(a, n) ==
    LET q == n \div DigitBits  r == n % DigitBits
    IN IF q >= Len(a) THEN a
       ELSE Norm(SubSeq(a, 1, q) \o (IF r = 0 THEN <<>> ELSE <<a[q + 1] % (2 ^ r)>>))
\* 2^n
PowerOfTwo(n) == Append(Zeros(n \div DigitBits), 2 ^ (n % DigitBits))

NAnd(a, b)   == Norm([i \in 1..MinI(Len(a), Len(b)) |-> a[i] & b[i]])
NOr(a, b)    == [i \in 1..MaxI(Len(a), Len(b)) |-> Dig(a, i) | Dig(b, i)]
NXor(a, b)   == Norm([i \in 1..MaxI(Len(a), Len(b)) |-> Dig(a, i) ^^ Dig(b, i)])
NAndNot(a, b) == Norm([i \in 1..Len(a) |-> a[i] - (a[i] & Dig(b, i))])

\* bits of a, most significant first
BitsMsb(a) == [k \in 1..BitLen(a) |-> Bit(a, BitLen(a) - k)]

\* <<quotient, remainder>> by binary shift-subtract, b # <<>>  (slow, obviously right)
DivMod(a, b) ==
    LET step(st, bit) ==
            LET r2 == MulAddSmall(st[2], 2, bit)
                ge == Cmp(r2, b) >= 0
            IN << MulAddSmall(st[1], 2, IF ge THEN 1 ELSE 0), IF ge THEN Sub(r2, b) ELSE r2 >>
    IN FoldLeft(step, << <<>>, <<>> >>, BitsMsb(a))
Mod(a, b) == DivMod(a, b)[2]

\* value of a digit string in an arbitrary small radix, most significant digit first (Horner)
FromRadixMsb(ds, radix) == FoldLeft(LAMBDA acc, d: MulAddSmall(acc, radix, d), <<>>, ds)
\* same, least significant first
FromRadixLsb(ds, radix) == FoldRight(LAMBDA d, acc: MulAddSmall(acc, radix, d), ds, <<>>)

\* Horner in chunks: radixpow = radix^chunk must satisfy radixpow * Base < 2^31
FromRadixMsbChunked(ds, radix, chunk, radixpow) ==
    LET n    == Len(ds)
        head == n % chunk
        cval(lo, hi) == FoldLeft(LAMBDA acc, i: acc * radix + ds[i], 0, [i \in 1..(hi - lo + 1) |-> lo + i - 1])
        first == IF head = 0 THEN <<>> ELSE OfInt(cval(1, head))
        nch  == (n - head) \div chunk
    IN FoldLeft(LAMBDA acc, c: MulAddSmall(acc, radixpow, cval(head + (c - 1) * chunk + 1, head + c * chunk)),
                first, Idx(nch))

=============================================================================
