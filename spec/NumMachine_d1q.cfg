CONSTANTS NU = 2  NI = 2  MaxAbs = 5000  Depth = 1
CONSTANT Seeds <- SeedsTiny
SPECIFICATION SpecB
INVARIANTS TypeOK Emit
CHECK_DEADLOCK FALSE
