SPECIFICATION Spec
CONSTANTS Base = 2
          L0 = 2
          L = 5
          Mut = "from_biguint_zero_keeps_sign"
INVARIANTS CanonInv EqInv OrdInv StepInv
CHECK_DEADLOCK FALSE
