SPECIFICATION Spec
CONSTANTS Base = 2
          L0 = 3
          L = 7
          Mut = "none"
INVARIANTS CanonInv EqInv OrdInv StepInv
CHECK_DEADLOCK FALSE
