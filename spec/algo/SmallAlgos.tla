----------------------------- MODULE SmallAlgos -----------------------------
(***************************************************************************)
(* L2 transcriptions of the smaller algorithms, each checked on every      *)
(* input of a scaled instance against its integer definition:              *)
(*  - Stein's gcd (BigUint::gcd) with the common power of two (C13);       *)
(*  - lcm / gcd_lcm (divide first, then multiply) (C13);                   *)
(*  - the three-phase exponent loop of Pow<$T> (square-only prefix, the    *)
(*    exp == 1 exit, square-and-multiply) and powsign (C12);               *)
(*  - the 64-bit body of Serialize / U32Visitor: split into u32 halves     *)
(*    with declared length, pairwise re-join with an odd tail (C17);       *)
(*  - gen_biguint: len and native_len from the bit size, the top word      *)
(*    shifted down, len <= 2 * native_len (C18, C15);                      *)
(*  - to_signed_bytes_le / from_signed_bytes_le with the -2^(8k-1)         *)
(*    exception, on "bytes" of BB bits (C09).                              *)
(***************************************************************************)
EXTENDS Integers, Sequences, TLC
CONSTANTS MaxG, MaxE, HalfBits, MaxWords, MaxBitSize, BB, MaxBytes, Mut
VARIABLES x, y, ph

RECURSIVE Pw(_, _)
Pw(b, k) == IF k = 0 THEN 1 ELSE b * Pw(b, k - 1)
RECURSIVE Tz(_)
Tz(v) == IF v = 0 THEN 0 ELSE IF v % 2 = 1 THEN 0 ELSE 1 + Tz(v \div 2)
MinI(a, b) == IF a <= b THEN a ELSE b
RECURSIVE GcdRef(_, _)
GcdRef(a, b) == IF b = 0 THEN a ELSE GcdRef(b, a % b)

(* ---- Stein ---- *)
Stein(a, b) ==
    IF a = 0 THEN b ELSE IF b = 0 THEN a
    ELSE LET shift == IF Mut = "gcd_max_shift" THEN (IF Tz(a) > Tz(b) THEN Tz(a) ELSE Tz(b)) ELSE MinI(Tz(b), Tz(a))
             n0 == b \div Pw(2, Tz(b))
             RECURSIVE loop(_, _)
             loop(m, n) == IF m = 0 THEN n
                           ELSE LET m1 == m \div Pw(2, Tz(m))
                                    nn == IF n > m1 THEN m1 ELSE n
                                    mm == IF n > m1 THEN n ELSE m1
                                IN loop(mm - nn, nn)
         IN loop(a, n0) * Pw(2, shift)
Lcm(a, b) == IF a = 0 /\ b = 0 THEN 0 ELSE (a \div Stein(a, b)) * b

(* ---- pow loop ---- *)
PowLoop(b, e0) ==
    IF e0 = 0 THEN 1
    ELSE LET RECURSIVE pre(_, _)
             pre(base, e) == IF e % 2 = 0 THEN pre(base * base, e \div 2) ELSE <<base, e>>
             p == pre(b, e0)
             RECURSIVE main(_, _, _)
             main(base, acc, e) == IF e > 1
                                   THEN LET e2 == e \div 2  b2 == base * base IN main(b2, IF e2 % 2 = 1 THEN acc * b2 ELSE acc, e2)
                                   ELSE acc
         IN IF p[2] = 1 /\ Mut # "pow_no_exit" THEN p[1] ELSE main(p[1], IF Mut = "pow_no_exit" /\ p[2] = 1 THEN 1 ELSE p[1], p[2])
PowSign(neg, e) == IF e = 0 THEN FALSE ELSE IF ~neg \/ e % 2 = 1 THEN neg ELSE FALSE      \* TRUE = result negative

(* ---- serde: native digits of 2*HalfBits bits <-> u32-like halves ---- *)
H == Pw(2, HalfBits)
RECURSIVE NatDigits(_)
NatDigits(v) == IF v = 0 THEN <<>> ELSE <<v % (H * H)>> \o NatDigits(v \div (H * H))
SerSplit(v) ==
    LET d == NatDigits(v) IN
    IF d = <<>> THEN [len |-> 0, elems |-> <<>>]
    ELSE LET last == d[Len(d)]  lo == last % H  hi == last \div H
             RECURSIVE body(_)
             body(i) == IF i >= Len(d) THEN <<>> ELSE <<d[i] % H, d[i] \div H>> \o body(i + 1)
         IN [len |-> (Len(d) - 1) * 2 + 1 + (IF hi # 0 THEN 1 ELSE 0),
             elems |-> body(1) \o <<lo>> \o (IF hi # 0 \/ Mut = "ser_always_hi" THEN <<hi>> ELSE <<>>)]
DeJoin(ws) ==   \* U32Visitor: pairs (lo, hi), an odd tail digit alone
    LET RECURSIVE go(_, _)
        go(i, acc) == IF i > Len(ws) THEN acc
                      ELSE IF i + 1 <= Len(ws) THEN go(i + 2, Append(acc, ws[i] + H * ws[i + 1]))
                      ELSE Append(acc, ws[i])
        RECURSIVE val(_)
        val(s) == IF s = <<>> THEN 0 ELSE s[1] + H * H * val(Tail(s))
    IN val(go(1, <<>>))
RECURSIVE ValW(_)
ValW(s) == IF s = <<>> THEN 0 ELSE s[1] + H * ValW(Tail(s))

(* ---- gen_biguint sizes (words of 32 bits, native digits of 64) ---- *)
GenLen(n) == (n \div 32) + (IF n % 32 > 0 THEN 1 ELSE 0)
GenNativeLen(n) == (n + 63) \div 64

(* ---- signed bytes on bytes of BB bits ---- *)
BYV == Pw(2, BB)
RECURSIVE BytesLE(_)
BytesLE(v) == IF v = 0 THEN <<>> ELSE <<v % BYV>> \o BytesLE(v \div BYV)
RECURSIVE ValB(_)
ValB(s) == IF s = <<>> THEN 0 ELSE s[1] + BYV * ValB(Tail(s))
TwosCompl(s) ==  \* twos_complement: invert and add one, in place
    LET RECURSIVE go(_, _, _)
        go(i, carry, out) == IF i > Len(s) THEN out
                             ELSE LET t == (BYV - 1 - s[i]) + (IF carry THEN 1 ELSE 0) IN go(i + 1, carry /\ t = BYV, Append(out, t % BYV))
    IN go(1, TRUE, <<>>)
ToSignedLE(v) ==     \* v an integer
    LET mag == IF v < 0 THEN -v ELSE v
        b0 == IF mag = 0 THEN <<0>> ELSE BytesLE(mag)
        last == b0[Len(b0)]
        isminpow == last = BYV \div 2 /\ (\A k \in 1..(Len(b0) - 1) : b0[k] = 0) /\ (v < 0 \/ Mut = "signed_no_sign_test")
        b1 == IF last >= BYV \div 2 /\ ~isminpow THEN Append(b0, 0) ELSE b0
    IN IF v < 0 THEN TwosCompl(b1) ELSE b1
FromSignedLE(s) ==
    IF s = <<>> THEN 0
    ELSE IF s[Len(s)] >= BYV \div 2 THEN -ValB(TwosCompl(s)) ELSE ValB(s)

----------------------------------------------------------------------------
Init == ph = 0 /\ x = 0 /\ y = 0
Next == /\ ph = 0 /\ ph' \in 1..5
        /\ \/ ph' = 1 /\ x' \in 0..MaxG /\ y' \in 0..MaxG
           \/ ph' = 2 /\ x' \in (-3)..3 /\ y' \in 0..MaxE
           \/ ph' = 3 /\ x' \in 0..(Pw(H, MaxWords) - 1) /\ y' = 0
           \/ ph' = 4 /\ x' \in 0..MaxBitSize /\ y' = 0
           \/ ph' = 5 /\ x' \in (-(Pw(BYV, MaxBytes) \div 2) - 2)..(Pw(BYV, MaxBytes) \div 2 + 2) /\ y' = 0
Abs(v) == IF v < 0 THEN -v ELSE v
Redundant(s) == Len(s) >= 2 /\ ((s[Len(s)] = 0 /\ s[Len(s) - 1] < BYV \div 2) \/ (s[Len(s)] = BYV - 1 /\ s[Len(s) - 1] >= BYV \div 2))
Inv ==
    /\ (ph = 1 => /\ Stein(x, y) = GcdRef(x, y)
                  /\ Lcm(x, y) * GcdRef(x, y) = x * y)
    /\ (ph = 2 => /\ (Abs(x) <= 1 \/ y <= 18 =>                     \* keeps 3^y inside TLC integers
                        LET p == PowLoop(Abs(x), y) IN
                        p = Pw(Abs(x), y) /\ (IF PowSign(x < 0, y) /\ p # 0 THEN -p ELSE p) = Pw(x, y)))
    /\ (ph = 3 => LET s == SerSplit(x) IN
                  /\ s.len = Len(s.elems)
                  /\ ValW(s.elems) = x /\ (s.elems = <<>> \/ s.elems[Len(s.elems)] # 0)
                  /\ DeJoin(s.elems) = x
                  /\ DeJoin(s.elems \o <<0>>) = x /\ DeJoin(s.elems \o <<0, 0, 0>>) = x)
    /\ (ph = 4 => GenLen(x) <= 2 * GenNativeLen(x) /\ GenLen(x) * 32 >= x /\ (x = 0 \/ (GenLen(x) - 1) * 32 < x))
    /\ (ph = 5 => LET s == ToSignedLE(x) IN
                  /\ Len(s) >= 1 /\ ~Redundant(s)
                  /\ FromSignedLE(s) = x
                  /\ FromSignedLE(s \o <<IF x < 0 THEN BYV - 1 ELSE 0>>) = x)
=============================================================================
