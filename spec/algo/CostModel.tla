------------------------------ MODULE CostModel ------------------------------
(***************************************************************************)
(* L2 for C20: the length-only recurrence of mac3's dispatch (thresholds   *)
(* 32 and 256 as in the code): W(n, m) = number of digit products (sum of  *)
(* row lengths given to mac_digit) for dense operands of n and m digits.   *)
(* TLC checks that the recurrence itself satisfies the inequalities of the *)
(* property; the check compares it with the counter measured on the real   *)
(* code and reports the difference as drift (never a verdict).             *)
(***************************************************************************)
EXTENDS Integers, TLC, Json
CONSTANTS TLong, TKara
VARIABLE k
MinI(a, b) == IF a <= b THEN a ELSE b
MaxI(a, b) == IF a >= b THEN a ELSE b
RECURSIVE W(_, _)
W(n, m) ==
    LET x == MinI(n, m)  y == MaxI(n, m) IN
    IF x = 0 THEN 0
    ELSE IF x <= TLong THEN x * y
    ELSE IF 2 * x <= y THEN LET m2 == y \div 2 IN W(x, m2) + W(x, y - m2)
    ELSE IF x <= TKara THEN LET b == x \div 2 IN 2 * W(x - b, y - b) + W(b, b)
    ELSE LET i  == y \div 3 + 1
             x0 == MinI(x, i)  x1 == MinI(x - x0, i)  x2 == x - x0 - x1
             y1 == MinI(y - i, i)  y2 == y - i - y1
             lp == MaxI(MaxI(x0, x2), x1)  lq == MaxI(MaxI(i, y2), y1)
         IN W(x0, i) + W(x2, y2) + 2 * W(lp, lq) + W(lp + 1, lq + 1)

Balanced == {256, 512, 1024, 2048, 4096, 8192}
Shapes(n) == {2 * n - 1, 2 * n, 64 * n}
Init == k = 0
Next == k = 0 /\ k' = 1
Doubling == \A n \in Balanced : 6 * W(2 * n, 2 * n) <= 19 * W(n, n)
Quarter  == 4 * W(4096, 4096) < 4096 * 4096
Unbal    == \A n \in {256, 257, 300, 340, 512, 1024, 2048} : \A m \in Shapes(n) : W(n, m) <= n * m
Table    == PrintT(<<"COSTMODEL", ToJson([n \in Balanced \cup {16384} |-> W(n, n)])>>)
Inv == Doubling /\ Quarter /\ Unbal /\ (k = 1 => Table)
=============================================================================
