CONSTANTS MaxLen = 2  Halves = {0, 1, 2}  Depth = 3
SPECIFICATION Spec
INVARIANTS Refines LenAgrees Emit
CHECK_DEADLOCK FALSE
