------------------------------- MODULE AddSub -------------------------------
(***************************************************************************)
(* L2 for C01: the Rust code around the assembly loops in                  *)
(* src/biguint/addition.rs and subtraction.rs over digits in base B:       *)
(* __add2 (block loop abstracted by its contract - see AsmBlock -, scalar  *)
(* tail, propagation into the longer operand with early exit),             *)
(* AddAssign<&BigUint> including the shorter-self path, sub2 with its      *)
(* mandatory assertion, __sub2rev / sub2rev, and Sub<BigUint> for &BigUint *)
(* (borrow of one into the copied tail).  For all operands up to MaxLen    *)
(* digits: the sum / difference is exact, the assertion fires iff a < b.   *)
(***************************************************************************)
EXTENDS Integers, Sequences, TLC
CONSTANTS B, Block, MaxLen, Mut
VARIABLES a, b, ph
MAXD == B - 1
RECURSIVE ValS(_)
ValS(s) == IF s = <<>> THEN 0 ELSE s[1] + B * ValS(Tail(s))
RECURSIVE NormS(_)
NormS(s) == IF s = <<>> THEN s ELSE IF s[Len(s)] = 0 THEN NormS(SubSeq(s, 1, Len(s) - 1)) ELSE s
Canon(n) == {s \in [1..n -> 0..MAXD] : n = 0 \/ s[n] # 0}

\* the block loop by its contract: the first `done` digits are added / subtracted, carry out returned
Done(n) == Block * (n \div Block)
RECURSIVE RippleAdd(_, _, _, _, _)
RippleAdd(x, y, i, hi, c) == \* digits i..hi of x += y, returns <<x, carry>>
    IF i > hi THEN <<x, c>> ELSE LET t == x[i] + y[i] + c IN RippleAdd([x EXCEPT ![i] = t % B], y, i + 1, hi, t \div B)
RECURSIVE RippleSub(_, _, _, _, _)
RippleSub(x, y, i, hi, c) ==
    IF i > hi THEN <<x, c>> ELSE LET t == x[i] - y[i] - c IN RippleSub([x EXCEPT ![i] = t % B], y, i + 1, hi, IF t < 0 THEN 1 ELSE 0)

\* __add2(a, b) with Len(a) >= Len(b): returns <<a, carry>>
Add2(x, y) ==
    LET n == Len(y)
        blk == RippleAdd(x, y, 1, Done(n), 0)                         \* schoolbook_add_assign_x86_64
        tail == RippleAdd(blk[1], y, Done(n) + 1, n, blk[2])          \* scalar tail
        RECURSIVE prop(_, _, _)
        prop(z, i, c) == IF c = 0 \/ i > Len(z) THEN <<z, c>>          \* early exit
                         ELSE LET t == z[i] + c IN prop([z EXCEPT ![i] = t % B], i + 1, t \div B)
    IN IF Mut = "no_propagate" THEN tail ELSE prop(tail[1], n + 1, tail[2])
\* AddAssign<&BigUint>: self += other
AddAssign(x, y) ==
    LET sl == Len(x) IN
    IF sl < Len(y)
    THEN LET lo == Add2(x, SubSeq(y, 1, sl))
             ext == lo[1] \o SubSeq(y, sl + 1, Len(y))
             hi == LET t == Add2(SubSeq(ext, sl + 1, Len(ext)), <<lo[2]>>) IN <<SubSeq(ext, 1, sl) \o t[1], t[2]>>
         IN IF hi[2] # 0 /\ Mut # "no_push" THEN Append(hi[1], hi[2]) ELSE hi[1]
    ELSE LET r == Add2(x, y) IN IF r[2] # 0 /\ Mut # "no_push" THEN Append(r[1], r[2]) ELSE r[1]

\* sub2(a, b): a -= b; returns [d, fail] where fail = the mandatory assertion fires
Sub2(x, y) ==
    LET len == IF Len(x) < Len(y) THEN Len(x) ELSE Len(y)
        blk == RippleSub(x, y, 1, Done(len), 0)
        tail == RippleSub(blk[1], y, Done(len) + 1, len, blk[2])
        RECURSIVE prop(_, _, _)
        prop(z, i, c) == IF c = 0 \/ i > Len(z) THEN <<z, c>>
                         ELSE LET t == z[i] - c IN prop([z EXCEPT ![i] = t % B], i + 1, IF t < 0 THEN 1 ELSE 0)
        p == prop(tail[1], len + 1, tail[2])
        bhi_zero == \A k \in (len + 1)..Len(y) : y[k] = 0
    IN [d |-> p[1], fail |-> ~(p[2] = 0 /\ (Mut = "borrow_only" \/ bhi_zero))]
\* SubAssign<&BigUint>
SubAssign(x, y) == LET r == Sub2(x, y) IN [d |-> NormS(r.d), fail |-> r.fail]
\* sub2rev(a, b): b = a - b with Len(b) >= Len(a)
Sub2Rev(x, y) ==
    LET len == IF Len(x) < Len(y) THEN Len(x) ELSE Len(y)
        RECURSIVE go(_, _, _)
        go(z, i, c) == IF i > len THEN <<z, c>> ELSE LET t == x[i] - z[i] - c IN go([z EXCEPT ![i] = t % B], i + 1, IF t < 0 THEN 1 ELSE 0)
        r == go(y, 1, 0)
    IN [d |-> r[1], fail |-> ~(Len(x) <= len) \/ ~(r[2] = 0 /\ \A k \in (len + 1)..Len(y) : y[k] = 0)]
\* Sub<BigUint> for &BigUint: self - other (other owned, reused)
SubRefVal(x, y) ==
    LET ol == Len(y) IN
    IF ol < Len(x)
    THEN LET RECURSIVE go(_, _, _)
             go(z, i, c) == IF i > ol THEN <<z, c>> ELSE LET t == x[i] - z[i] - c IN go([z EXCEPT ![i] = t % B], i + 1, IF t < 0 THEN 1 ELSE 0)
             lo == go(y, 1, 0)
             ext == lo[1] \o SubSeq(x, ol + 1, Len(x))
             hi == IF lo[2] # 0 THEN Sub2(SubSeq(ext, ol + 1, Len(ext)), <<1>>) ELSE [d |-> SubSeq(ext, ol + 1, Len(ext)), fail |-> FALSE]
         IN [d |-> NormS(SubSeq(ext, 1, ol) \o hi.d), fail |-> hi.fail]
    ELSE LET r == Sub2Rev(x, y) IN [d |-> NormS(r.d), fail |-> r.fail]

va == ValS(a)
vb == ValS(b)
Init == ph = 0 /\ b = <<>> /\ \E n \in 0..MaxLen : a \in Canon(n)
Next == ph = 0 /\ ph' = 1 /\ UNCHANGED a /\ \E n \in 0..MaxLen : b' \in Canon(n)
GoodNat(s) == s = <<>> \/ s[Len(s)] # 0
Inv == ph = 1 =>
    /\ ValS(AddAssign(a, b)) = va + vb /\ GoodNat(AddAssign(a, b))
    /\ LET s == SubAssign(a, b) IN s.fail = (va < vb) /\ (~s.fail => ValS(s.d) = va - vb /\ GoodNat(s.d))
    /\ LET s == SubRefVal(a, b) IN s.fail = (va < vb) /\ (~s.fail => ValS(s.d) = va - vb /\ GoodNat(s.d))
=============================================================================
