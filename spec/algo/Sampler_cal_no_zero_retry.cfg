SPECIFICATION Spec
CONSTANTS WB = 2
          MaxDraw = 5
          MaxBits = 5
          MaxBound = 9
          MaxEnd = 4
          Mut = "no_zero_retry"
INVARIANTS InBounds AsSpecified BufferInv
CHECK_DEADLOCK FALSE
