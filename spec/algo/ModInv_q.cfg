CONSTANTS MaxA = 70 MaxM = 60 Mut = "none"
SPECIFICATION Spec
INVARIANTS Safe Reduced Bezout Answer
PROPERTY Finishes
CHECK_DEADLOCK FALSE
