CONSTANTS Bits = 2  MaxLen = 4  Mut = "none"
INIT Init
NEXT Next
INVARIANT Inv
CHECK_DEADLOCK FALSE
