------------------------------ MODULE FloatPath ------------------------------
(***************************************************************************)
(* L2 for C08: to_f32 / to_f64 as coded: high_bits_to_u64 gathers the top  *)
(* WB bits of the digit vector into a window whose last bit is made sticky *)
(* (round to odd), and the hardware then rounds that window to P bits.     *)
(* Scaled: digits of DB bits, window WB, significand P.  For every value   *)
(* below 2^MaxBits the two-step result equals direct round-to-nearest-even *)
(* of the exact value.  Mut = "bits_want" is the pinned tree's original    *)
(* defect F7 (bits -= bits_want), kept as the calibration mutant.          *)
(***************************************************************************)
EXTENDS Integers, Sequences, TLC
CONSTANTS DB, WB, P, MaxBits, Mut
VARIABLE v
RECURSIVE Pw(_, _)
Pw(x, k) == IF k = 0 THEN 1 ELSE x * Pw(x, k - 1)
RECURSIVE BitLen(_)
BitLen(x) == IF x = 0 THEN 0 ELSE 1 + BitLen(x \div 2)
RECURSIVE DigitsLE(_)
DigitsLE(x) == IF x = 0 THEN <<>> ELSE <<x % Pw(2, DB)>> \o DigitsLE(x \div Pw(2, DB))
MinI(a, b) == IF a <= b THEN a ELSE b

\* high_bits_to_u64 for a value of at least two digits
HighBits(x) ==
    LET ds == DigitsLE(x)
        RECURSIVE go(_, _, _, _)
        go(i, bits, ret, retbits) ==
            IF i = 0 THEN ret
            ELSE LET d  == ds[i]
                     db == ((bits - 1) % DB) + 1
                     want == MinI(WB - retbits, db)
                     r1 == IF want # 0 THEN (IF want # WB THEN ret * Pw(2, want) ELSE ret) + (d \div Pw(2, db - want)) ELSE ret
                     low == d % Pw(2, db - want)                          \* the bits of this digit that did not fit
                     r2 == IF db - want # 0 /\ low # 0 /\ r1 % 2 = 0 THEN r1 + 1 ELSE r1     \* ret |= (masked != 0)
                 IN go(i - 1, bits - (IF Mut = "bits_want" THEN want ELSE db), r2, retbits + want)
    IN IF Len(ds) <= 1 THEN x ELSE go(Len(ds), BitLen(x), 0, 0)

\* round a positive integer to P significant bits, nearest, ties to even: <<significand, exponent>> with value sig * 2^exp
RNE(x) == LET n == BitLen(x) IN
          IF n <= P THEN <<x * Pw(2, P - n), n - P>>
          ELSE LET sh == n - P
                   top == x \div Pw(2, sh)
                   rem == x % Pw(2, sh)
                   half == Pw(2, sh - 1)
                   up == rem > half \/ (rem = half /\ top % 2 = 1)
                   t == IF up THEN top + 1 ELSE top
               IN IF t = Pw(2, P) THEN <<Pw(2, P - 1), sh + 1>> ELSE <<t, sh>>
\* to_fNN as coded: mantissa = HighBits, exponent = bits - fls(mantissa), then (mantissa as float) * 2^exponent
AsCoded(x) == LET m == HighBits(x)
                  e == BitLen(x) - BitLen(m)
                  r == RNE(m)
              IN <<r[1], r[2] + e>>
Init == v \in 1..(Pw(2, MaxBits) - 1)
Next == UNCHANGED v
Inv == AsCoded(v) = RNE(v)
=============================================================================
