CONSTANTS B = 8  MaxU = 4  MaxD = 3  Mut = "none"
INIT Init
NEXT Next
INVARIANT Inv
CHECK_DEADLOCK FALSE
