------------------------------ MODULE AsmBlock ------------------------------
(***************************************************************************)
(* L2 / binding X: an interpreter for the x86_64 asm! block of             *)
(* schoolbook_{add,sub}_assign_x86_64.  The program text, operand classes  *)
(* and the Rust wrapper lines come from the generated module AsmProg       *)
(* (tools/extract_asm.py run on /repo's current source), so the model      *)
(* checked IS the code as written.  One TLA+ step per instruction.         *)
(* Digits are 0..B-1 (B = 2 or 3 in the checked instances); the memory     *)
(* model is two arrays of n digits, lhs = A (read/write), rhs = B (read).  *)
(***************************************************************************)
EXTENDS Integers, Sequences, FiniteSets, TLC, AsmProg
CONSTANTS B,        \* digit base of the scaled instance
          MaxN,     \* sizes 0..MaxN
          MinN,
          Mode      \* "add" or "sub": which contract the block must meet

VARIABLES n, a0, b0, ma, mb, r, def, cf, zf, pc, status, steps
vars == <<n, a0, b0, ma, mb, r, def, cf, zf, pc, status, steps>>

\* which array a pointer register designates (from the operand expressions lhs / rhs)
PtrOf(reg) == IF reg \in RegNames /\ Operands[reg].expr = Params[1] THEN "A"
              ELSE IF reg \in RegNames /\ Operands[reg].expr = Params[2] THEN "B" ELSE "none"
IsInput(reg) == Operands[reg].cls \in {"in", "inout", "inlateout"}

InitRegs(size) == [x \in RegNames |->
                     IF x = SizeParam THEN size \div BlockDiv
                     ELSE IF Operands[x].expr = "idx" THEN (IF Idx0 >= 0 THEN Idx0 ELSE 0)
                     ELSE 0]

Init ==
    /\ n \in MinN..MaxN
    /\ ma \in [1..n -> 0..(B - 1)]
    /\ mb \in [1..n -> 0..(B - 1)]
    /\ a0 = ma /\ b0 = mb
    /\ r = InitRegs(n)
    /\ def = {x \in RegNames : IsInput(x)}
    /\ cf = 0 /\ zf = 0 /\ steps = 0
    /\ pc = 1
    /\ status = IF EarlyReturn /\ (n \div BlockDiv) = 0 THEN "early" ELSE "run"

Halt(st) == /\ status' = st
            /\ UNCHANGED <<ma, mb, r, def, cf, zf, pc>>

\* effective 1-based element index of a memory operand
Elem(i) == r[i.idx] + (i.off \div 8) + 1
MemOK(i) == /\ PtrOf(i.base) # "none" /\ i.idx \in def
            /\ (i.off % 8) = 0
            /\ Elem(i) >= 1 /\ Elem(i) <= n

Exec(i) ==
    LET next == /\ pc' = pc + 1 /\ status' = "run" IN
    CASE i.op \in {"label", "nop"} -> next /\ UNCHANGED <<ma, mb, r, def, cf, zf>>
      [] i.op = "clc" -> next /\ cf' = 0 /\ UNCHANGED <<ma, mb, r, def, zf>>
      [] i.op = "stc" -> next /\ cf' = 1 /\ UNCHANGED <<ma, mb, r, def, zf>>
      [] i.op = "load" ->
            IF ~MemOK(i) THEN Halt("oob")
            ELSE /\ next
                 /\ r' = [r EXCEPT ![i.dst] = IF PtrOf(i.base) = "A" THEN ma[Elem(i)] ELSE mb[Elem(i)]]
                 /\ def' = def \cup {i.dst}
                 /\ UNCHANGED <<ma, mb, cf, zf>>
      [] i.op = "store" ->
            IF ~MemOK(i) \/ i.src \notin def THEN Halt("oob")
            ELSE IF PtrOf(i.base) = "B" THEN Halt("write_rhs")
            ELSE /\ next /\ ma' = [ma EXCEPT ![Elem(i)] = r[i.src]] /\ UNCHANGED <<mb, r, def, cf, zf>>
      [] i.op \in {"adc", "add"} ->
            IF {i.dst, i.src} \subseteq def
            THEN LET t == r[i.dst] + r[i.src] + (IF i.op = "adc" THEN cf ELSE 0) IN
                 /\ next /\ r' = [r EXCEPT ![i.dst] = t % B] /\ cf' = t \div B /\ zf' = (IF t % B = 0 THEN 1 ELSE 0)
                 /\ UNCHANGED <<ma, mb, def>>
            ELSE Halt("undef")
      [] i.op \in {"sbb", "sub", "cmp"} ->
            IF {i.dst, i.src} \subseteq def
            THEN LET t == r[i.dst] - r[i.src] - (IF i.op = "sbb" THEN cf ELSE 0) IN
                 /\ next /\ cf' = (IF t < 0 THEN 1 ELSE 0) /\ zf' = (IF t % B = 0 THEN 1 ELSE 0)
                 /\ r' = IF i.op = "cmp" THEN r ELSE [r EXCEPT ![i.dst] = t % B]
                 /\ UNCHANGED <<ma, mb, def>>
            ELSE Halt("undef")
      [] i.op = "movrr" ->
            IF i.src \in def THEN /\ next /\ r' = [r EXCEPT ![i.dst] = r[i.src]] /\ def' = def \cup {i.dst} /\ UNCHANGED <<ma, mb, cf, zf>>
            ELSE Halt("undef")
      [] i.op = "xor" ->
            IF i.dst = i.src THEN /\ next /\ r' = [r EXCEPT ![i.dst] = 0] /\ def' = def \cup {i.dst} /\ cf' = 0 /\ zf' = 1 /\ UNCHANGED <<ma, mb>>
            ELSE Halt("unsupported")
      [] i.op = "test" ->
            IF i.dst = i.src /\ i.dst \in def THEN /\ next /\ cf' = 0 /\ zf' = (IF r[i.dst] = 0 THEN 1 ELSE 0) /\ UNCHANGED <<ma, mb, r, def>>
            ELSE Halt("unsupported")
      [] i.op = "lea" ->
            IF i.src \in def /\ PtrOf(i.src) = "none" /\ (i.off % 8) = 0
            THEN /\ next /\ r' = [r EXCEPT ![i.dst] = r[i.src] + i.off] /\ def' = def \cup {i.dst} /\ UNCHANGED <<ma, mb, cf, zf>>
            ELSE Halt("unsupported")
      [] i.op = "inc" ->
            IF i.dst \in def /\ PtrOf(i.dst) = "none"
            THEN /\ next /\ r' = [r EXCEPT ![i.dst] = r[i.dst] + 1] /\ zf' = 0 /\ UNCHANGED <<ma, mb, def, cf>>     \* CF is preserved by inc
            ELSE Halt("unsupported")
      [] i.op = "dec" ->
            IF i.dst \in def /\ PtrOf(i.dst) = "none"
            THEN IF r[i.dst] = 0 THEN Halt("counter_wrap")
                 ELSE /\ next /\ r' = [r EXCEPT ![i.dst] = r[i.dst] - 1] /\ zf' = (IF r[i.dst] = 1 THEN 1 ELSE 0)
                      /\ UNCHANGED <<ma, mb, def, cf>>                                                               \* CF is preserved by dec
            ELSE Halt("unsupported")
      [] i.op = "setc" -> /\ next /\ r' = [r EXCEPT ![i.dst] = cf] /\ def' = def \cup {i.dst} /\ UNCHANGED <<ma, mb, cf, zf>>
      [] i.op = "jnz" -> /\ pc' = (IF zf = 0 THEN i.target ELSE pc + 1) /\ status' = "run" /\ UNCHANGED <<ma, mb, r, def, cf, zf>>
      [] i.op = "jz"  -> /\ pc' = (IF zf = 1 THEN i.target ELSE pc + 1) /\ status' = "run" /\ UNCHANGED <<ma, mb, r, def, cf, zf>>
      [] i.op = "jmp" -> /\ pc' = i.target /\ status' = "run" /\ UNCHANGED <<ma, mb, r, def, cf, zf>>
      [] OTHER -> Halt("unsupported")

StepBound == (Len(Prog) + 2) * (MaxN + 2)

Next ==
    /\ status = "run"
    /\ steps' = steps + 1
    /\ UNCHANGED <<n, a0, b0>>
    /\ IF pc > Len(Prog) THEN Halt("halt")
       ELSE IF steps > StepBound THEN Halt("loop")
       ELSE Exec(Prog[pc])
Spec == Init /\ [][Next]_vars

----------------------------------------------------------------------------
RECURSIVE ValTo(_, _)
ValTo(f, k) == IF k = 0 THEN 0 ELSE f[k] * (B ^ (k - 1)) + ValTo(f, k - 1)   \* value of digits 1..k

Done  == IF status = "early" THEN 0 ELSE r[RetDone]
Carry == IF status = "early" THEN 0 ELSE (IF r[RetCarry] > 0 THEN 1 ELSE 0)

\* no access outside 0..n-1 of the right array, no write to rhs, no undefined register read, no runaway loop
Safe == status \in {"run", "halt", "early"}
RhsUntouched == mb = b0
\* the contract __add2 / sub2 rely on: the first Done digits hold the sum / difference with the returned
\* carry / borrow, the digits above are untouched
Contract ==
    status \in {"halt", "early"} =>
        /\ Done \in 0..n
        /\ \A k \in (Done + 1)..n : ma[k] = a0[k]
        /\ IF Mode = "add"
           THEN ValTo(ma, Done) + Carry * (B ^ Done) = ValTo(a0, Done) + ValTo(b0, Done)
           ELSE ValTo(ma, Done) - Carry * (B ^ Done) = ValTo(a0, Done) - ValTo(b0, Done)
\* as written today the block consumes whole groups of BlockDiv digits (reported, L2 only)
WholeBlocks == status \in {"halt", "early"} => Done = BlockDiv * (n \div BlockDiv)
=============================================================================
