CONSTANTS MaxX = 600  MaxN = 5  Mut = "none"
SPECIFICATION Spec
INVARIANT Inv
PROPERTY Finishes
CHECK_DEADLOCK FALSE
