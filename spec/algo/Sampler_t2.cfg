SPECIFICATION Spec
CONSTANTS WB = 3
          MaxDraw = 4
          MaxBits = 8
          MaxBound = 20
          MaxEnd = 4
          Mut = "none"
INVARIANTS InBounds AsSpecified BufferInv
CHECK_DEADLOCK FALSE
