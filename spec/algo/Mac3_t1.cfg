CONSTANTS B = 2  TLong = 1  TKara = 4  MinL = 0  MaxL = 8  Mut = "none"
INIT Init
NEXT Next
INVARIANT Inv
CHECK_DEADLOCK FALSE
