CONSTANTS B = 2  TLong = 2  TKara = 6  MinL = 0  MaxL = 9  Mut = "kara_temp_short"
INIT Init
NEXT Next
INVARIANT Inv
CHECK_DEADLOCK FALSE
