CONSTANTS Bits = 2  MaxLen = 4  Mut = "setneg_no_push"
INIT Init
NEXT Next
INVARIANT Inv
CHECK_DEADLOCK FALSE
