CONSTANTS MaxA = 70 MaxM = 60 Mut = "le_instead_of_lt"
SPECIFICATION Spec
INVARIANTS Safe Reduced Bezout Answer
PROPERTY Finishes
CHECK_DEADLOCK FALSE
