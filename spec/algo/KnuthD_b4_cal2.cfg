CONSTANTS B = 4  MaxU = 5  MaxD = 3  Mut = "sat_minus_one"
INIT Init
NEXT Next
INVARIANT Inv
CHECK_DEADLOCK FALSE
