CONSTANTS B = 2  Block = 5  MaxLen = 7  Mut = "no_push"
INIT Init
NEXT Next
INVARIANT Inv
CHECK_DEADLOCK FALSE
