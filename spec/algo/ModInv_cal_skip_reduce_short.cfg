CONSTANTS MaxA = 70 MaxM = 60 Mut = "skip_reduce_short"
SPECIFICATION Spec
INVARIANTS Safe Reduced Bezout Answer
PROPERTY Finishes
CHECK_DEADLOCK FALSE
