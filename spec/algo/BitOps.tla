------------------------------- MODULE BitOps -------------------------------
(***************************************************************************)
(* L2 for C07: the nine mixed-sign routines of src/bigint/bits.rs          *)
(* (bit{and,or,xor}_{pos_neg,neg_pos,neg_neg}) transcribed with their      *)
(* running two's-complement carries (negate_carry), truncate / extend /    *)
(* push rules and debug assertions, over digits of Bits bits.              *)
(* For every pair of non-zero magnitudes of at most MaxLen digits the      *)
(* routine's digits, read with the sign its comment promises, must equal   *)
(* the operation on the infinite two's-complement expansions (defined on   *)
(* TLC integers through floor division), and no debug assertion may fire.  *)
(***************************************************************************)
EXTENDS Integers, Sequences, TLC
CONSTANTS Bits, MaxLen, Mut
VARIABLES a, b, ph
B == 2 ^ Bits
MAXD == B - 1
RECURSIVE ValS(_)
ValS(s) == IF s = <<>> THEN 0 ELSE s[1] + B * ValS(Tail(s))
Canon(n) == {s \in [1..n -> 0..MAXD] : s[n] # 0}

\* digit-level bit operators through bit decomposition
RECURSIVE DOp(_, _, _, _)
DOp(op, x, y, k) == IF k = 0 THEN 0
                    ELSE LET bx == x % 2  by == y % 2
                             r == CASE op = "and" -> bx * by [] op = "or" -> bx + by - bx * by [] op = "xor" -> (bx + by) % 2
                         IN r + 2 * DOp(op, x \div 2, y \div 2, k - 1)
DigOp(op, x, y) == DOp(op, x, y, Bits)

\* negate_carry(d, acc) = <<lo, acc'>>
NC(d, acc) == LET t == acc + (MAXD - d) IN <<t % B, t \div B>>

(* One generic pass.  cfg says, for this routine: negA/negB (operand read through negate_carry),
   negR (result written through negate_carry), and what happens to the longer operand's tail.
   state: out digits, carries ca, cb, cr, ok (debug assertions). *)
Zip(op, x, y, negA, negB, negR) ==
    LET n == IF Len(x) < Len(y) THEN Len(x) ELSE Len(y)
        RECURSIVE go(_, _, _, _, _)
        go(i, ca, cb, cr, out) ==
            IF i > n THEN [out |-> out, ca |-> ca, cb |-> cb, cr |-> cr]
            ELSE LET ta == IF negA THEN NC(x[i], ca) ELSE <<x[i], ca>>
                     tb == IF negB THEN NC(y[i], cb) ELSE <<y[i], cb>>
                     r  == DigOp(op, ta[1], tb[1])
                     tr == IF negR THEN NC(r, cr) ELSE <<r, cr>>
                 IN go(i + 1, ta[2], tb[2], tr[2], Append(out, tr[1]))
    IN go(1, 1, 1, 1, <<>>)

\* tail of the longer operand passed through up to two negate_carry stages / complemented
RECURSIVE TailNN(_, _, _, _)      \* nc(nc(d, c1), c2) over a tail; returns [out, c1, c2]
TailNN(t, c1, c2, out) == IF t = <<>> THEN [out |-> out, c1 |-> c1, c2 |-> c2]
                          ELSE LET u == NC(t[1], c1)  v == NC(u[1], c2) IN TailNN(Tail(t), u[2], v[2], Append(out, v[1]))
RECURSIVE TailCN(_, _, _)         \* nc(d ^ MAXD, c) over a tail
TailCN(t, c, out) == IF t = <<>> THEN [out |-> out, c |-> c]
                     ELSE LET v == NC(MAXD - t[1], c) IN TailCN(Tail(t), v[2], Append(out, v[1]))
RECURSIVE TailNC(_, _, _)         \* nc(d, c) ^ MAXD over a tail
TailNC(t, c, out) == IF t = <<>> THEN [out |-> out, c |-> c]
                     ELSE LET v == NC(t[1], c) IN TailNC(Tail(t), v[2], Append(out, MAXD - v[1]))

Rest(s, n) == SubSeq(s, n + 1, Len(s))
LA == Len(a)
LB == Len(b)
N  == IF LA < LB THEN LA ELSE LB

\* each routine returns [d |-> digits (not normalised), neg |-> sign of the answer, ok |-> debug assertions hold]
AndPosNeg == LET z == Zip("and", a, b, FALSE, TRUE, FALSE) IN
             [d |-> z.out \o Rest(a, N), neg |-> FALSE, ok |-> LB > LA \/ z.cb = 0]
AndNegPos == LET z == Zip("and", a, b, TRUE, FALSE, FALSE) IN
             [d |-> IF LA >= LB THEN z.out ELSE z.out \o Rest(b, N), neg |-> FALSE, ok |-> LA > LB \/ z.ca = 0]
AndNegNeg == LET z == Zip("and", a, b, TRUE, TRUE, TRUE)
                 t == IF LA > LB THEN TailNN(Rest(a, N), z.ca, z.cr, <<>>)
                      ELSE IF LA < LB THEN TailNN(Rest(b, N), z.cb, z.cr, <<>>)
                      ELSE [out |-> <<>>, c1 |-> 0, c2 |-> z.cr]
                 push == t.c2 # 0 /\ Mut # "and_neg_neg_no_push"
             IN [d |-> z.out \o t.out \o (IF push THEN <<1>> ELSE <<>>), neg |-> TRUE,
                 ok |-> (LA > LB \/ z.ca = 0) /\ (LB > LA \/ z.cb = 0) /\ (LA # LB => t.c1 = 0)]
OrPosNeg  == LET z == Zip("or", a, b, FALSE, TRUE, TRUE)
                 t == IF LA < LB THEN TailNN(Rest(b, N), z.cb, z.cr, <<>>) ELSE [out |-> <<>>, c1 |-> 0, c2 |-> z.cr]
             IN [d |-> z.out \o t.out, neg |-> TRUE, ok |-> (LB > LA \/ z.cb = 0) /\ (LA < LB => t.c1 = 0) /\ t.c2 = 0]
OrNegPos  == LET z == Zip("or", a, b, TRUE, FALSE, TRUE)
                 t == IF LA > LB THEN TailNN(Rest(a, N), z.ca, z.cr, <<>>) ELSE [out |-> <<>>, c1 |-> 0, c2 |-> z.cr]
             IN [d |-> z.out \o t.out, neg |-> TRUE, ok |-> (LA > LB \/ z.ca = 0) /\ (LA > LB => t.c1 = 0) /\ t.c2 = 0]
OrNegNeg  == LET z == Zip("or", a, b, TRUE, TRUE, TRUE) IN
             [d |-> z.out, neg |-> TRUE, ok |-> (LA > LB \/ z.ca = 0) /\ (LB > LA \/ z.cb = 0) /\ z.cr = 0]
XorPosNeg == LET z == Zip("xor", a, b, FALSE, TRUE, TRUE)
                 t == IF LA > LB THEN LET u == TailCN(Rest(a, N), z.cr, <<>>) IN [out |-> u.out, c1 |-> 0, c2 |-> u.c]
                      ELSE IF LA < LB THEN TailNN(Rest(b, N), z.cb, z.cr, <<>>)
                      ELSE [out |-> <<>>, c1 |-> 0, c2 |-> z.cr]
             IN [d |-> z.out \o t.out \o (IF t.c2 # 0 THEN <<1>> ELSE <<>>), neg |-> TRUE,
                 ok |-> (LB > LA \/ z.cb = 0) /\ (LA < LB => t.c1 = 0)]
XorNegPos == LET z == Zip("xor", a, b, TRUE, FALSE, TRUE)
                 t == IF LA > LB THEN TailNN(Rest(a, N), z.ca, z.cr, <<>>)
                      ELSE IF LA < LB THEN LET u == TailCN(Rest(b, N), z.cr, <<>>) IN [out |-> u.out, c1 |-> 0, c2 |-> u.c]
                      ELSE [out |-> <<>>, c1 |-> 0, c2 |-> z.cr]
             IN [d |-> z.out \o t.out \o (IF t.c2 # 0 THEN <<1>> ELSE <<>>), neg |-> TRUE,
                 ok |-> (LA > LB \/ z.ca = 0) /\ (LA > LB => t.c1 = 0)]
XorNegNeg == LET z == Zip("xor", a, b, TRUE, TRUE, FALSE)
                 t == IF LA > LB THEN TailNC(Rest(a, N), z.ca, <<>>)
                      ELSE IF LA < LB THEN TailNC(Rest(b, N), z.cb, <<>>)
                      ELSE [out |-> <<>>, c |-> 0]
             IN [d |-> z.out \o t.out, neg |-> FALSE, ok |-> (LA > LB \/ z.ca = 0) /\ (LB > LA \/ z.cb = 0) /\ t.c = 0]

----------------------------------------------------------------------------
\* reference: the operation on the infinite expansions, via floor division
K == Bits * (MaxLen + 1) + 1
IBit(v, i) == (v \div (2 ^ i)) % 2
RECURSIVE SumBits(_, _, _, _)
SumBits(op, x, y, i) == IF i = K THEN 0
                        ELSE LET bx == IBit(x, i)  by == IBit(y, i)
                                 r == CASE op = "and" -> bx * by [] op = "or" -> bx + by - bx * by [] op = "xor" -> (bx + by) % 2
                             IN r * (2 ^ i) + SumBits(op, x, y, i + 1)
Ref(op, x, y) == LET negr == CASE op = "and" -> x < 0 /\ y < 0 [] op = "or" -> x < 0 \/ y < 0 [] op = "xor" -> (x < 0) # (y < 0)
                 IN SumBits(op, x, y, 0) - (IF negr THEN 2 ^ K ELSE 0)
Signed(r) == (IF r.neg THEN -1 ELSE 1) * ValS(r.d)
va == ValS(a)
vb == ValS(b)

Init == ph = 0 /\ b = <<1>> /\ \E n \in 1..MaxLen : a \in Canon(n)
Next == ph = 0 /\ ph' = 1 /\ UNCHANGED a /\ \E n \in 1..MaxLen : b' \in Canon(n)
Check(r, op, x, y) == r.ok /\ Signed(r) = Ref(op, x, y)
Inv == ph = 1 =>
    /\ Check(AndPosNeg, "and", va, -vb) /\ Check(AndNegPos, "and", -va, vb) /\ Check(AndNegNeg, "and", -va, -vb)
    /\ Check(OrPosNeg, "or", va, -vb)   /\ Check(OrNegPos, "or", -va, vb)   /\ Check(OrNegNeg, "or", -va, -vb)
    /\ Check(XorPosNeg, "xor", va, -vb) /\ Check(XorNegPos, "xor", -va, vb) /\ Check(XorNegNeg, "xor", -va, -vb)
=============================================================================
