-------------------------------- MODULE Mac3 --------------------------------
(***************************************************************************)
(* L2 for C02 (and the length recurrence for C20): src/biguint/            *)
(* multiplication.rs transcribed over digits in base B with scaled         *)
(* thresholds: mac3 (low-zero stripping, long multiplication, the          *)
(* unbalanced split, Karatsuba with sub_sign and the three sign cases of   *)
(* the middle term, Toom-3 with Bodrato's sequence and recomposition by    *)
(* add2/sub2 at digit offsets), mac_digit, mul3.  Accumulators are         *)
(* fixed-length digit arrays; every place where the code only              *)
(* debug_asserts (carry out of add2, borrow out of sub2, final carry of a  *)
(* row, operand longer than the slice) clears the ok flag.                 *)
(* TLC enumerates every operand pair of the scaled instance: the product   *)
(* is exact and ok stays TRUE.  W counts the row lengths given to          *)
(* mac_digit (the C20 work measure).                                       *)
(***************************************************************************)
EXTENDS Integers, Sequences, TLC
CONSTANTS B, TLong, TKara,   \* digit base; scaled thresholds (32 and 256 in the code)
          MinL, MaxL,        \* operand lengths explored
          Mut                \* "none" or a calibration mutant of the transcription
VARIABLES x, y, ph

MinI(a, b) == IF a <= b THEN a ELSE b
RECURSIVE ValS(_)
ValS(s) == IF s = <<>> THEN 0 ELSE s[1] + B * ValS(Tail(s))
RECURSIVE DigitsOf(_)
DigitsOf(v) == IF v = 0 THEN <<>> ELSE <<v % B>> \o DigitsOf(v \div B)
RECURSIVE NormS(_)
NormS(s) == IF s = <<>> THEN s ELSE IF s[Len(s)] = 0 THEN NormS(SubSeq(s, 1, Len(s) - 1)) ELSE s
Zeros(n) == [k \in 1..n |-> 0]
Canon(n) == {s \in [1..n -> 0..(B - 1)] : n = 0 \/ s[n] # 0}
FirstNz(s) == CHOOSE k \in 1..Len(s) : s[k] # 0 /\ \A j \in 1..(k - 1) : s[j] = 0

(* st = [acc, ok, w]; off = 0-based offset of the slice acc[off..] *)

\* __add2(acc[off..], b) with the debug_assert of add2: no carry out of the slice, b fits
Add2At(st, off, b) ==
    LET n == Len(st.acc) - off
        RECURSIVE go(_, _, _)
        go(i, c, acc) ==
            IF i > n THEN [acc |-> acc, c |-> c]
            ELSE IF i > Len(b) /\ c = 0 THEN [acc |-> acc, c |-> 0]
            ELSE LET t == acc[off + i] + (IF i <= Len(b) THEN b[i] ELSE 0) + c IN
                 go(i + 1, t \div B, [acc EXCEPT ![off + i] = t % B])
        r == go(1, 0, st.acc)
    IN IF off > Len(st.acc) \/ Len(b) > n THEN [st EXCEPT !.ok = FALSE]
       ELSE [acc |-> r.acc, ok |-> st.ok /\ r.c = 0, w |-> st.w]
\* sub2(acc[off..], b): borrow must end at zero and b must not be longer (its excess digits must be zero)
Sub2At(st, off, b) ==
    LET n == Len(st.acc) - off
        RECURSIVE go(_, _, _)
        go(i, c, acc) ==
            IF i > n THEN [acc |-> acc, c |-> c]
            ELSE IF i > Len(b) /\ c = 0 THEN [acc |-> acc, c |-> 0]
            ELSE LET t == acc[off + i] - (IF i <= Len(b) THEN b[i] ELSE 0) - c IN
                 go(i + 1, IF t < 0 THEN 1 ELSE 0, [acc EXCEPT ![off + i] = t % B])
        r == go(1, 0, st.acc)
    IN IF off > Len(st.acc) THEN [st EXCEPT !.ok = FALSE]
       ELSE [acc |-> r.acc, ok |-> st.ok /\ r.c = 0 /\ (\A k \in (n + 1)..Len(b) : b[k] = 0), w |-> st.w]

\* mac_digit(acc[off..], b, c): acc += b * c, the final carry must be absorbed inside the slice
MacDigit(st, off, b, c) ==
    IF c = 0 THEN st
    ELSE LET v == ValS(b) * c                                  \* the row value; added with ripple carry
             r == Add2At([st EXCEPT !.w = st.w + Len(b)], off, DigitsOf(v))
         IN IF Len(b) > Len(st.acc) - off THEN [st EXCEPT !.ok = FALSE] ELSE r

\* sub_sign(a, b) = (sign, |a - b|) on slices that may carry high zeros
SubSign(a, b) == LET va == ValS(a)  vb == ValS(b) IN
                 IF va > vb THEN <<1, DigitsOf(va - vb)>> ELSE IF va < vb THEN <<-1, DigitsOf(vb - va)>> ELSE <<0, <<>> >>

RECURSIVE Mac3At(_, _, _, _)
Mac3At(st, off, b0, c0) ==
    \* least-significant zero digits are stripped (the accumulator slice moves with them)
    IF b0 # <<>> /\ b0[1] = 0 /\ (\A k \in 1..Len(b0) : b0[k] = 0) THEN st
    ELSE IF c0 # <<>> /\ c0[1] = 0 /\ (\A k \in 1..Len(c0) : c0[k] = 0) THEN st
    ELSE
    LET zb == IF b0 # <<>> /\ b0[1] = 0 THEN FirstNz(b0) - 1 ELSE 0
        zc == IF c0 # <<>> /\ c0[1] = 0 THEN FirstNz(c0) - 1 ELSE 0
        b  == SubSeq(b0, zb + 1, Len(b0))
        c  == SubSeq(c0, zc + 1, Len(c0))
        o  == off + zb + zc
        xs == IF Len(b) < Len(c) THEN b ELSE c
        ys == IF Len(b) < Len(c) THEN c ELSE b
        nx == Len(xs)  ny == Len(ys)
    IN
    IF nx <= TLong THEN
        \* long multiplication: one row per digit of x
        LET RECURSIVE rows(_, _)
            rows(s, i) == IF i > nx THEN s ELSE rows(MacDigit(s, o + i - 1, ys, xs[i]), i + 1)
        IN rows(st, 1)
    ELSE IF nx * 2 <= ny THEN
        \* unbalanced: split the longer operand in two halves
        LET m2 == ny \div 2
            s1 == Mac3At(st, o, xs, SubSeq(ys, 1, m2))
        IN Mac3At(s1, o + m2, xs, SubSeq(ys, m2 + 1, ny))
    ELSE IF nx <= TKara THEN
        \* Karatsuba with one temporary p of len = |x1| + |y1| + 1 digits
        LET h  == nx \div 2
            x0 == SubSeq(xs, 1, h)   x1 == SubSeq(xs, h + 1, nx)
            y0 == SubSeq(ys, 1, h)   y1 == SubSeq(ys, h + 1, ny)
            plen == Len(x1) + Len(y1) + (IF Mut = "kara_temp_short" THEN 0 ELSE 1)
            p2 == Mac3At([acc |-> Zeros(plen), ok |-> TRUE, w |-> 0], 0, x1, y1)
            d2 == NormS(p2.acc)
            sA == Add2At([st EXCEPT !.ok = st.ok /\ p2.ok, !.w = st.w + p2.w], o + h, d2)
            sB == Add2At(sA, o + 2 * h, d2)
            p0 == Mac3At([acc |-> Zeros(plen), ok |-> TRUE, w |-> 0], 0, x0, y0)
            d0 == NormS(p0.acc)
            sC == Add2At([sB EXCEPT !.ok = sB.ok /\ p0.ok, !.w = sB.w + p0.w], o, d0)
            sD == Add2At(sC, o + h, d0)
            j0 == SubSign(x1, x0)
            j1 == SubSign(y1, y0)
            sg == j0[1] * j1[1]
        IN IF sg = 1 THEN
               LET p1 == Mac3At([acc |-> Zeros(plen), ok |-> TRUE, w |-> 0], 0, j0[2], j1[2]) IN
               Sub2At([sD EXCEPT !.ok = sD.ok /\ p1.ok, !.w = sD.w + p1.w], o + h, NormS(p1.acc))
           ELSE IF sg = -1 THEN Mac3At(sD, o + h, j0[2], j1[2])
           ELSE sD
    ELSE
        \* Toom-3 on signed values (the five pointwise products are ordinary multiplications of smaller numbers)
        LET i   == ny \div 3 + 1
            x0l == MinI(nx, i)
            x1l == MinI(nx - x0l, i)
            y1l == MinI(ny - i, i)
            X0 == ValS(SubSeq(xs, 1, x0l))  X1 == ValS(SubSeq(xs, x0l + 1, x0l + x1l))  X2 == ValS(SubSeq(xs, x0l + x1l + 1, nx))
            Y0 == ValS(SubSeq(ys, 1, i))    Y1 == ValS(SubSeq(ys, i + 1, i + y1l))      Y2 == ValS(SubSeq(ys, i + y1l + 1, ny))
            p  == X0 + X2   q  == Y0 + Y2
            pp == p - X1    qq == q - Y1
            r0 == X0 * Y0   r4 == X2 * Y2
            r1 == (p + X1) * (q + Y1)
            r2 == pp * qq
            r3 == ((pp + X2) * 2 - X0) * ((qq + Y2) * 2 - Y0)
            TDiv(a, k) == IF a >= 0 THEN a \div k ELSE -((-a) \div k)       \* BigInt '/' truncates
            c3a == TDiv(r3 - r1, 3)
            c1a == (r1 - r2) \div 2                                        \* '>>' floors
            c2a == r2 - r0
            c3  == ((c2a - c3a) \div 2) + 2 * r4
            c2  == c2a + c1a - r4
            c1  == c1a - c3
            parts == <<r0, c1, c2, c3, r4>>
            Abs(v) == IF v < 0 THEN -v ELSE v
            RECURSIVE place(_, _)
            place(s, j) == IF j < 0 THEN s
                           ELSE LET v == parts[j + 1] IN
                                place(IF v > 0 THEN Add2At(s, o + i * j, DigitsOf(v))
                                      ELSE IF v < 0 THEN Sub2At(s, o + i * j, DigitsOf(Abs(v)))
                                      ELSE s, j - 1)
            \* the work of the five pointwise products is accounted by the length recurrence in CostModel, not here
        IN place(st, 4)

\* mul3(x, y): a fresh accumulator of |x| + |y| + 1 digits
Mul3(a, b) == LET st == Mac3At([acc |-> Zeros(Len(a) + Len(b) + (IF Mut = "mul3_short" THEN 0 ELSE 1)), ok |-> TRUE, w |-> 0], 0, a, b)
              IN [digits |-> NormS(st.acc), ok |-> st.ok, w |-> st.w]

\* the shorter operands are the initial states, the longer ones their successors
Init == /\ ph = 0 /\ y = <<>>
        /\ \E n \in MinL..MaxL : x \in Canon(n)
Next == /\ ph = 0 /\ ph' = 1 /\ UNCHANGED x
        /\ \E n \in Len(x)..MaxL : y' \in Canon(n)
Res == Mul3(x, y)
Exact == ph = 1 => ValS(Res.digits) = ValS(x) * ValS(y)
NoSlip == ph = 1 => Res.ok
Inv == Exact /\ NoSlip
=============================================================================
