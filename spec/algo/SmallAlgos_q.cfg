CONSTANTS MaxG = 130  MaxE = 70  HalfBits = 2  MaxWords = 5  MaxBitSize = 4200  BB = 2  MaxBytes = 4  Mut = "none"
INIT Init
NEXT Next
INVARIANT Inv
CHECK_DEADLOCK FALSE
