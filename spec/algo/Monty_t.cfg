CONSTANTS Bits = 4  Win = 2  NW = 2  MaxBase = 80  MaxExp = 40  Mut = "none"
INIT Init
NEXT Next
INVARIANT Inv
CHECK_DEADLOCK FALSE
