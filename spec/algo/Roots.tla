-------------------------------- MODULE Roots --------------------------------
(***************************************************************************)
(* L2 for C11: fixpoint() of src/biguint.rs as a state machine, started    *)
(* from a NON-DETERMINISTIC initial guess.  Whatever the guess (so:        *)
(* whether or not floating point was available to produce it), the loops   *)
(* terminate and deliver the floor root.  Covers the Newton step of sqrt,  *)
(* cbrt (n = 2, 3) and the general nth_root step, with the bit-size        *)
(* saturation of the first loop.                                           *)
(***************************************************************************)
EXTENDS Integers, TLC
CONSTANTS MaxX, MaxN, Mut
VARIABLES x, n, s, sn, phase, steps
vars == <<x, n, s, sn, phase, steps>>

RECURSIVE Pw(_, _)
Pw(b, e) == IF e = 0 THEN 1 ELSE b * Pw(b, e - 1)
RECURSIVE BitsOf(_)
BitsOf(v) == IF v = 0 THEN 0 ELSE 1 + BitsOf(v \div 2)
MaxBits == BitsOf(x) \div n + 1
\* the Newton step  f(s) = ((n-1) s + x / s^(n-1)) / n
F(v) == ((n - 1) * v + x \div Pw(v, n - 1)) \div n
Sat == IF Mut = "low_saturation" THEN Pw(2, MaxBits - 1) ELSE Pw(2, MaxBits)

Init == /\ x \in 2..MaxX /\ n \in 2..MaxN
        /\ BitsOf(x) > n                           \* otherwise the code returns 1 before the iteration
        /\ s \in 1..(Pw(2, BitsOf(x) \div n + 1) + 1) \* any guess from 1 up to just above the saturation value
        /\ sn = F(s) /\ phase = "up" /\ steps = 0

Up   == /\ phase = "up"
        /\ IF s < sn
           THEN /\ s' = (IF BitsOf(sn) > MaxBits THEN Sat ELSE sn)
                /\ sn' = F(s') /\ phase' = "up"
           ELSE /\ phase' = "down" /\ UNCHANGED <<s, sn>>
Down == /\ phase = "down"
        /\ IF (IF Mut = "down_ge" THEN s >= sn ELSE s > sn)
           THEN /\ s' = sn /\ sn' = F(sn) /\ phase' = "down"
           ELSE /\ phase' = "done" /\ UNCHANGED <<s, sn>>
Next == /\ (Up \/ Down) /\ steps' = steps + 1 /\ UNCHANGED <<x, n>>
Spec == Init /\ [][Next]_vars /\ WF_vars(Next)

FloorRoot == phase = "done" => Pw(s, n) <= x /\ x < Pw(s + 1, n)
\* the estimate never reaches zero (the step divides by s^(n-1))
NoZero == s >= 1
\* both loops are short: a generous bound turns a cycle into an invariant violation
Terminates == steps <= 4 * BitsOf(MaxX) + 8
Inv == FloorRoot /\ NoZero /\ Terminates
Finishes == <>(phase = "done")
=============================================================================
