CONSTANTS DB = 3  WB = 6  P = 3  MaxBits = 13  Mut = "none"
INIT Init
NEXT Next
INVARIANT Inv
CHECK_DEADLOCK FALSE
