CONSTANTS TLong = 32  TKara = 256
INIT Init
NEXT Next
INVARIANT Inv
CHECK_DEADLOCK FALSE
