CONSTANTS B = 3  MinN = 0  MaxN = 6  Mode = "add"
SPECIFICATION Spec
INVARIANTS Safe RhsUntouched Contract
CHECK_DEADLOCK FALSE
