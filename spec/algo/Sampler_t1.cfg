SPECIFICATION Spec
CONSTANTS WB = 2
          MaxDraw = 6
          MaxBits = 7
          MaxBound = 17
          MaxEnd = 6
          Mut = "none"
INVARIANTS InBounds AsSpecified BufferInv
CHECK_DEADLOCK FALSE
