SPECIFICATION Spec
CONSTANTS WB = 2
          MaxDraw = 6
          MaxBits = 6
          MaxBound = 13
          MaxEnd = 5
          Mut = "none"
INVARIANTS InBounds AsSpecified BufferInv
CHECK_DEADLOCK FALSE
