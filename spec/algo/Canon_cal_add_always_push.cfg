SPECIFICATION Spec
CONSTANTS Base = 2
          L0 = 2
          L = 5
          Mut = "add_always_push"
INVARIANTS CanonInv EqInv OrdInv StepInv
CHECK_DEADLOCK FALSE
