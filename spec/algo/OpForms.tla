------------------------------- MODULE OpForms -------------------------------
(***************************************************************************)
(* Binding X for C10: the table of forwarding-macro invocations extracted  *)
(* from the source (OpFormsTable, generated).  A forwarder that swaps its  *)
(* operands (the *_commutative family) may only serve a commutative        *)
(* operator; the method name must be the operator's own; every operator    *)
(* that has an assign form forwards it under the matching name.            *)
(***************************************************************************)
EXTENDS Integers, Sequences, TLC, OpFormsTable
VARIABLE i
Commutative == {"Add", "Mul", "BitAnd", "BitOr", "BitXor"}
MethodOf == [Add |-> "add", Sub |-> "sub", Mul |-> "mul", Div |-> "div", Rem |-> "rem", BitAnd |-> "bitand", BitOr |-> "bitor",
             BitXor |-> "bitxor", Shl |-> "shl", Shr |-> "shr",
             AddAssign |-> "add_assign", SubAssign |-> "sub_assign", MulAssign |-> "mul_assign", DivAssign |-> "div_assign",
             RemAssign |-> "rem_assign", BitAndAssign |-> "bitand_assign", BitOrAssign |-> "bitor_assign", BitXorAssign |-> "bitxor_assign",
             ShlAssign |-> "shl_assign", ShrAssign |-> "shr_assign"]
Init == i = 1
Next == i < Len(Table) /\ i' = i + 1
RowOK(r) == /\ (r.swap => r.trait \in Commutative)        \* swap: the forwarder's name says it may exchange its operands
            /\ (r.trait \in DOMAIN MethodOf => r.method = MethodOf[r.trait])
            /\ r.ty \in {"BigUint", "BigInt"}
Inv == RowOK(Table[i])
=============================================================================
