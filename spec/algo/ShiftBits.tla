------------------------------ MODULE ShiftBits ------------------------------
(***************************************************************************)
(* L2 for C07: biguint_shl2 / biguint_shr2 (digit and bit split, carry and *)
(* borrow between digits), the floor rounding of BigInt >> (shr_round_down *)
(* on trailing zeros), BigInt::bit for negative values, BigUint::set_bit   *)
(* and the five sub-cases of set_negative_bit, transcribed over digits of  *)
(* Bits bits and checked against integer arithmetic for every magnitude of *)
(* at most MaxLen digits, every shift and every bit index in range.        *)
(***************************************************************************)
EXTENDS Integers, Sequences, TLC
CONSTANTS Bits, MaxLen, Mut
VARIABLES a, ph, k
B == 2 ^ Bits
MAXD == B - 1
RECURSIVE ValS(_)
ValS(s) == IF s = <<>> THEN 0 ELSE s[1] + B * ValS(Tail(s))
RECURSIVE NormS(_)
NormS(s) == IF s = <<>> THEN s ELSE IF s[Len(s)] = 0 THEN NormS(SubSeq(s, 1, Len(s) - 1)) ELSE s
Canon(n) == {s \in [1..n -> 0..MAXD] : n = 0 \/ s[n] # 0}
Zeros(n) == [i \in 1..n |-> 0]

\* biguint_shl2(n, digits, shift)
Shl2(s, digits, shift) ==
    LET RECURSIVE go(_, _, _)
        go(i, carry, out) == IF i > Len(s) THEN (IF carry # 0 THEN Append(out, carry) ELSE out)
                             ELSE LET nc == s[i] \div (2 ^ (Bits - shift)) IN
                                  go(i + 1, nc, Append(out, ((s[i] * (2 ^ shift)) % B) + carry))
    IN IF s = <<>> THEN <<>> ELSE Zeros(digits) \o (IF shift = 0 THEN s ELSE go(1, 0, <<>>))
\* biguint_shr2(n, digits, shift)
Shr2(s, digits, shift) ==
    IF digits >= Len(s) THEN <<>>
    ELSE LET d == SubSeq(s, digits + 1, Len(s))
             RECURSIVE go(_, _, _)
             go(i, borrow, out) == IF i = 0 THEN out
                                   ELSE LET nb == (d[i] * (2 ^ (Bits - shift))) % B IN
                                        go(i - 1, nb, <<(d[i] \div (2 ^ shift)) + borrow>> \o out)
         IN NormS(IF shift = 0 THEN d ELSE go(Len(d), 0, <<>>))
Shl(s, n) == Shl2(s, n \div Bits, n % Bits)
Shr(s, n) == Shr2(s, n \div Bits, n % Bits)

RECURSIVE Tz(_)
Tz(v) == IF v % 2 = 1 THEN 0 ELSE 1 + Tz(v \div 2)
\* BigInt >> n for a negative value -|a|: magnitude after rounding toward minus infinity
ShrNeg(s, n) == LET zeros == Tz(ValS(s))
                    down == n > 0 /\ (IF Mut = "round_le" THEN zeros <= n ELSE zeros < n)
                    d == Shr(s, n)
                IN IF down THEN ValS(d) + 1 ELSE ValS(d)

DBit(s, i) == IF (i \div Bits) + 1 <= Len(s) THEN (s[(i \div Bits) + 1] \div (2 ^ (i % Bits))) % 2 ELSE 0
\* BigUint::set_bit
SetBitU(s, i, v) ==
    LET di == i \div Bits + 1  mask == 2 ^ (i % Bits) IN
    IF v THEN LET t == IF di > Len(s) THEN s \o Zeros(di - Len(s)) ELSE s IN
              [t EXCEPT ![di] = IF (t[di] \div mask) % 2 = 1 THEN t[di] ELSE t[di] + mask]
    ELSE IF di <= Len(s) THEN NormS([s EXCEPT ![di] = IF (s[di] \div mask) % 2 = 1 THEN s[di] - mask ELSE s[di]])
    ELSE s
\* BigInt::bit for a negative value with magnitude s
BitNeg(s, i) == IF i >= Bits * Len(s) THEN 1
                ELSE LET tz == Tz(ValS(s)) IN
                     IF i < tz THEN 0 ELSE IF i = tz THEN 1 ELSE 1 - DBit(s, i)
NC(d, acc) == LET t == acc + (MAXD - d) IN <<t % B, t \div B>>
\* digit-level and-not / xor with masks given as integers (masks are contiguous bit runs, so arithmetic suffices)
AndNotBit(d, mask) == IF (d \div mask) % 2 = 1 THEN d - mask ELSE d
RECURSIVE XorD(_, _, _)
XorD(x, y, n) == IF n = 0 THEN 0 ELSE ((x + y) % 2) + 2 * XorD(x \div 2, y \div 2, n - 1)

\* set_negative_bit(x, bit, value): new magnitude digits (before the caller's normalize)
SetNegBit(s, bit, v) ==
    IF bit >= Bits * Len(s) THEN (IF ~v THEN SetBitU(s, bit, TRUE) ELSE s)
    ELSE LET tz == Tz(ValS(s)) IN
    IF bit > tz THEN SetBitU(s, bit, ~v)
    ELSE IF bit = tz /\ ~v THEN
        LET bi == bit \div Bits + 1
            mask == 2 ^ (bit % Bits)
            first == NC(s[bi], 1)
            tout == AndNotBit(first[1], mask)
            wr == NC(tout, 1)
            RECURSIVE rest(_, _, _, _)
            rest(i, cin, cout, out) ==
                IF i > Len(s) THEN [out |-> out, cin |-> cin, cout |-> cout]
                ELSE IF cin = 0 /\ cout = 0 THEN [out |-> out \o SubSeq(s, i, Len(s)), cin |-> 0, cout |-> 0]
                ELSE LET t == NC(s[i], cin)  w == NC(t[1], cout) IN rest(i + 1, t[2], w[2], Append(out, w[1]))
            r == rest(bi + 1, first[2], wr[2], SubSeq(s, 1, bi - 1) \o <<wr[1]>>)
        IN IF r.cout # 0 /\ Mut # "setneg_no_push" THEN Append(r.out, 1) ELSE r.out
    ELSE IF bit < tz /\ v THEN
        LET lo == bit \div Bits + 1  hi == tz \div Bits + 1
            mlo == (MAXD * (2 ^ (bit % Bits))) % B
            mhi == MAXD \div (2 ^ (Bits - 1 - (tz % Bits)))
        IN IF lo = hi THEN [s EXCEPT ![lo] = XorD(s[lo], ((mlo + mhi) - MAXD), Bits)]      \* mlo & mhi for two runs that overlap
           ELSE [i \in 1..Len(s) |-> IF i = lo THEN mlo ELSE IF i > lo /\ i < hi THEN MAXD ELSE IF i = hi THEN XorD(s[hi], mhi, Bits) ELSE s[i]]
    ELSE s

va == ValS(a)
IBit(v, i) == (v \div (2 ^ i)) % 2
Init == ph = 0 /\ k = 0 /\ \E n \in 0..MaxLen : a \in Canon(n)
Next == ph = 0 /\ ph' = 1 /\ UNCHANGED a /\ k' \in 0..(Bits * (MaxLen + 1) + 1)
Inv == ph = 1 =>
    /\ ValS(Shl(a, k)) = va * 2 ^ k /\ (Shl(a, k) = <<>> \/ Shl(a, k)[Len(Shl(a, k))] # 0)
    /\ ValS(Shr(a, k)) = va \div 2 ^ k
    /\ (va > 0 => -ShrNeg(a, k) = (-va) \div (2 ^ k))
    /\ DBit(a, k) = IBit(va, k)
    /\ ValS(SetBitU(a, k, TRUE)) = va + (1 - IBit(va, k)) * 2 ^ k
    /\ ValS(SetBitU(a, k, FALSE)) = va - IBit(va, k) * 2 ^ k
    /\ (va > 0 =>
          /\ BitNeg(a, k) = IBit(-va, k)
          /\ -ValS(SetNegBit(a, k, TRUE))  = (-va) + (1 - IBit(-va, k)) * 2 ^ k
          /\ -ValS(SetNegBit(a, k, FALSE)) = (-va) - IBit(-va, k) * 2 ^ k)
=============================================================================
