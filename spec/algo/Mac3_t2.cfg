CONSTANTS B = 2  TLong = 2  TKara = 8  MinL = 0  MaxL = 10  Mut = "none"
INIT Init
NEXT Next
INVARIANT Inv
CHECK_DEADLOCK FALSE
