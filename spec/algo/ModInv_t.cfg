CONSTANTS MaxA = 400 MaxM = 300 Mut = "none"
SPECIFICATION Spec
INVARIANTS Safe Reduced Bezout Answer
PROPERTY Finishes
CHECK_DEADLOCK FALSE
