CONSTANTS B = 4  MaxU = 5  MaxD = 3  Mut = "no_addback"
INIT Init
NEXT Next
INVARIANT Inv
CHECK_DEADLOCK FALSE
