CONSTANTS MaxLen = 3  Halves = {0, 1, 2}  Depth = 0
SPECIFICATION Spec
INVARIANTS Refines LenAgrees
CHECK_DEADLOCK FALSE
