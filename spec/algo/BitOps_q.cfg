CONSTANTS Bits = 2  MaxLen = 3  Mut = "none"
INIT Init
NEXT Next
INVARIANT Inv
CHECK_DEADLOCK FALSE
