CONSTANTS B = 3  Block = 5  MaxLen = 6  Mut = "none"
INIT Init
NEXT Next
INVARIANT Inv
CHECK_DEADLOCK FALSE
