CONSTANTS Bits = 2  Win = 2  NW = 2  MaxBase = 63  MaxExp = 39  Mut = "skip_sub"
INIT Init
NEXT Next
INVARIANT Inv
CHECK_DEADLOCK FALSE
