CONSTANTS Bits = 2  MaxLen = 4  Mut = "round_le"
INIT Init
NEXT Next
INVARIANT Inv
CHECK_DEADLOCK FALSE
