CONSTANTS MaxX = 600  MaxN = 5  Mut = "low_saturation"
SPECIFICATION Spec
INVARIANT Inv
PROPERTY Finishes
CHECK_DEADLOCK FALSE
