CONSTANTS B = 2  Block = 5  MaxLen = 11  Mut = "none"
INIT Init
NEXT Next
INVARIANT Inv
CHECK_DEADLOCK FALSE
