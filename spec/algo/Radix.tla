-------------------------------- MODULE Radix --------------------------------
(***************************************************************************)
(* L2 for C06: the digit-level radix conversions of                        *)
(* src/biguint/convert.rs over native digits of DBits bits:                *)
(*   out: to_bitwise_digits_le, to_inexact_bitwise_digits_le,              *)
(*        to_radix_digits_le with the per-radix (base, power) table and    *)
(*        the big-base path (threshold TBig native digits, sqrt-sized      *)
(*        super-chunks that must each yield big_power * power digits);     *)
(*   in:  from_bitwise_digits_le, from_inexact_bitwise_digits_le,          *)
(*        from_radix_digits_be (first chunk of len mod power digits).      *)
(* Every value below 2^(DBits*MaxLen) and every digit string of at most    *)
(* MaxStr digits is converted; out must give THE digit string (little      *)
(* endian, no high zero digit), in must give the denoted value in          *)
(* canonical form.                                                         *)
(***************************************************************************)
EXTENDS Integers, Sequences, TLC
CONSTANTS DBits, MaxLen, MaxStr, TBig, Radices, Mut
VARIABLES v, ds, radix, ph
D == 2 ^ DBits
MAXD == D - 1
RECURSIVE Pw(_, _)
Pw(x, k) == IF k = 0 THEN 1 ELSE x * Pw(x, k - 1)
RECURSIVE DigitsLE(_, _)
DigitsLE(x, r) == IF x = 0 THEN <<>> ELSE <<x % r>> \o DigitsLE(x \div r, r)      \* reference digit string
RECURSIVE ValLE(_, _)
ValLE(s, r) == IF s = <<>> THEN 0 ELSE s[1] + r * ValLE(Tail(s), r)
RECURSIVE LenD(_)
LenD(x) == IF x = 0 THEN 0 ELSE 1 + LenD(x \div D)                                \* native digits of a value
RECURSIVE Log2(_)
Log2(x) == IF x <= 1 THEN 0 ELSE 1 + Log2(x \div 2)
IsPow2(r) == Pw(2, Log2(r)) = r
RECURSIVE Isqrt(_, _)
Isqrt(x, g) == IF (g + 1) * (g + 1) <= x THEN Isqrt(x, g + 1) ELSE g
NatDigits(x) == DigitsLE(x, D)

\* generate_radix_bases: the largest power of radix that fits a native digit
RECURSIVE BaseOf(_, _, _)
BaseOf(r, base, power) == IF base * r > MAXD THEN <<base, power>> ELSE BaseOf(r, base * r, power + 1)
RadixBase(r) == BaseOf(r, r, 1)

(* ------------------------------- output ------------------------------- *)
ToBitwiseLE(x, bits) ==
    LET nd == NatDigits(x)  per == DBits \div bits  mask == Pw(2, bits)
        RECURSIVE full(_, _)
        full(r, cnt) == IF cnt = 0 THEN <<>> ELSE <<r % mask>> \o full(r \div mask, cnt - 1)
        RECURSIVE top(_)
        top(r) == IF r = 0 THEN <<>> ELSE <<r % mask>> \o top(r \div mask)
        RECURSIVE body(_)
        body(i) == IF i >= Len(nd) THEN <<>> ELSE full(nd[i], per) \o body(i + 1)
    IN body(1) \o top(nd[Len(nd)])
ToInexactLE(x, bits) ==
    LET nd == NatDigits(x)  mask == Pw(2, bits)
        \* r is an unbounded accumulator here; the code's "grab the bits we lost" keeps the same bits in a native word
        RECURSIVE inner(_, _, _)
        inner(r, rbits, out) == IF rbits >= bits THEN inner(r \div mask, rbits - bits, Append(out, r % mask)) ELSE <<r, rbits, out>>
        RECURSIVE outer(_, _, _, _)
        outer(i, r, rbits, out) == IF i > Len(nd) THEN <<r, rbits, out>>
                                   ELSE LET t == inner(r + nd[i] * Pw(2, rbits), rbits + DBits, out) IN outer(i + 1, t[1], t[2], t[3])
        fin == outer(1, 0, 0, <<>>)
        all == IF fin[2] # 0 THEN Append(fin[3], fin[1]) ELSE fin[3]
        RECURSIVE strip(_)
        strip(s) == IF s # <<>> /\ s[Len(s)] = 0 THEN strip(SubSeq(s, 1, Len(s) - 1)) ELSE s
    IN strip(all)
\* `power` digits of a chunk value, least significant first
RECURSIVE ChunkDigits(_, _, _)
ChunkDigits(r, rad, cnt) == IF cnt = 0 THEN <<>> ELSE <<r % rad>> \o ChunkDigits(r \div rad, rad, cnt - 1)
ToRadixLE(x, rad) ==
    LET bp == RadixBase(rad)  base == bp[1]  power == bp[2]
        \* the big-base path
        bigb == IF LenD(x) >= TBig
                THEN LET target == Isqrt(LenD(x), 0)
                         RECURSIVE grow(_, _)
                         grow(bb, pw) == IF LenD(bb) < target THEN grow(bb * bb, pw * 2) ELSE <<bb, pw>>
                     IN grow(base, 1)
                ELSE <<0, 0>>
        RECURSIVE innerbig(_, _)
        innerbig(bigr, cnt) == IF cnt = 0 THEN <<>>
                               ELSE ChunkDigits(bigr % base, rad, IF cnt = 1 /\ Mut = "inner_short" THEN power - 1 ELSE power) \o innerbig(bigr \div base, cnt - 1)
        RECURSIVE outerbig(_, _)
        outerbig(dg, out) == IF bigb[1] # 0 /\ dg > bigb[1]
                             THEN outerbig(dg \div bigb[1], out \o innerbig(dg % bigb[1], bigb[2]))
                             ELSE <<dg, out>>
        ob == outerbig(x, <<>>)
        RECURSIVE small(_, _)
        small(dg, out) == IF LenD(dg) > 1 THEN small(dg \div base, out \o ChunkDigits(dg % base, rad, power)) ELSE <<dg, out>>
        sm == small(ob[1], ob[2])
    IN sm[2] \o DigitsLE(sm[1], rad)             \* `while r != 0` on the last native digit

(* -------------------------------- input -------------------------------- *)
FromBitwiseLE(s, bits) == ValLE(s, Pw(2, bits))                \* chunks of DBits/bits digits folded with shifts: the same value
FromInexactLE(s, bits) ==
    LET RECURSIVE go(_, _, _, _)
        go(i, d, dbits, data) ==
            IF i > Len(s) THEN (IF dbits > 0 THEN Append(data, d) ELSE data)
            ELSE LET d1 == d + s[i] * Pw(2, dbits)  db1 == dbits + bits IN
                 IF db1 >= DBits THEN go(i + 1, s[i] \div Pw(2, bits - (db1 - DBits)), db1 - DBits, Append(data, d1 % D))
                 ELSE go(i + 1, d1, db1, data)
    IN go(1, 0, 0, <<>>)
FromRadixBE(s, rad) ==                                          \* s most significant first, non-empty
    LET bp == RadixBase(rad)  base == bp[1]  power == bp[2]
        r0 == Len(s) % power
        i0 == IF r0 = 0 THEN power ELSE (IF Mut = "first_chunk_full" THEN power ELSE r0)
        fold(seq) == LET RECURSIVE f(_, _) f(k, acc) == IF k > Len(seq) THEN acc ELSE f(k + 1, acc * rad + seq[k]) IN f(1, 0)
        RECURSIVE chunks(_, _)
        chunks(pos, acc) == IF pos > Len(s) THEN acc
                            ELSE chunks(pos + power, acc * base + fold(SubSeq(s, pos, IF pos + power - 1 <= Len(s) THEN pos + power - 1 ELSE Len(s))))
    IN IF i0 > Len(s) THEN fold(s) ELSE chunks(i0 + 1, fold(SubSeq(s, 1, i0)))

----------------------------------------------------------------------------
Bits(r) == Log2(r)
OutOf(x, r) == IF IsPow2(r) THEN (IF (DBits % Bits(r)) = 0 THEN ToBitwiseLE(x, Bits(r)) ELSE ToInexactLE(x, Bits(r))) ELSE ToRadixLE(x, r)
Init == /\ ph = 0 /\ v = 0 /\ ds = <<>> /\ radix \in Radices
Next == /\ ph = 0 /\ UNCHANGED radix
        /\ \/ ph' = 1 /\ v' \in 1..(Pw(2, DBits * MaxLen) - 1) /\ UNCHANGED ds
           \/ ph' = 2 /\ UNCHANGED v /\ \E n \in {k \in 1..MaxStr : k * (Log2(radix) + 1) <= 30} : ds' \in [1..n -> {0, 1, radix - 1}]
RECURSIVE Rev(_)
Rev(s) == IF s = <<>> THEN <<>> ELSE Append(Rev(Tail(s)), s[1])
InOf(s, r) == \* s least significant first
    IF IsPow2(r) THEN (IF (DBits % Bits(r)) = 0 THEN FromBitwiseLE(s, Bits(r)) ELSE ValLE(FromInexactLE(s, Bits(r)), D))
    ELSE FromRadixBE(Rev(s), r)
Inv == /\ (ph = 1 => OutOf(v, radix) = DigitsLE(v, radix))
       /\ (ph = 2 => InOf(ds, radix) = ValLE(ds, radix))
=============================================================================
