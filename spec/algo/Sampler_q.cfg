SPECIFICATION Spec
CONSTANTS WB = 2
          MaxDraw = 5
          MaxBits = 5
          MaxBound = 9
          MaxEnd = 4
          Mut = "none"
INVARIANTS InBounds AsSpecified BufferInv
CHECK_DEADLOCK FALSE
