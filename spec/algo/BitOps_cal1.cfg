CONSTANTS Bits = 2  MaxLen = 3  Mut = "and_neg_neg_no_push"
INIT Init
NEXT Next
INVARIANT Inv
CHECK_DEADLOCK FALSE
