SPECIFICATION Spec
CONSTANTS Base = 2
          L0 = 2
          L = 5
          Mut = "and_no_truncate"
INVARIANTS CanonInv EqInv OrdInv StepInv
CHECK_DEADLOCK FALSE
