CONSTANTS DBits = 6  MaxLen = 2  MaxStr = 7  TBig = 2  Radices = {2, 4, 8, 16, 32, 3, 5, 7, 10}  Mut = "first_chunk_full"
INIT Init
NEXT Next
INVARIANT Inv
CHECK_DEADLOCK FALSE
