-------------------------------- MODULE Monty --------------------------------
(***************************************************************************)
(* L2 for C05: src/biguint/monty.rs (inv_mod_alt, montgomery with its two  *)
(* carry words and the conditional subtraction, the windowed               *)
(* monty_modpow with table, padding, conversion out and final reductions)  *)
(* and plain_modpow of src/biguint/power.rs (zero low digits, trailing     *)
(* zero stripping, early exit, last-digit handling), over words of Bits    *)
(* bits and a window of Win bits.  For every base, exponent and modulus of *)
(* the scaled instance the result is base^exp mod modulus.                 *)
(***************************************************************************)
EXTENDS Integers, Sequences, TLC
CONSTANTS Bits, Win, NW, MaxBase, MaxExp, Mut
VARIABLES b, e, m, ph
W == 2 ^ Bits
RECURSIVE Pw(_, _)
Pw(x, k) == IF k = 0 THEN 1 ELSE x * Pw(x, k - 1)
RECURSIVE PwMod(_, _, _)
PwMod(x, k, mod) == IF k = 0 THEN 1 % mod ELSE (x * PwMod(x, k - 1, mod)) % mod
RECURSIVE DigitsN(_, _)
DigitsN(v, n) == IF n = 0 THEN <<>> ELSE <<v % W>> \o DigitsN(v \div W, n - 1)   \* exactly n words
RECURSIVE ValS(_)
ValS(s) == IF s = <<>> THEN 0 ELSE s[1] + W * ValS(Tail(s))
RECURSIVE LenOf(_)
LenOf(v) == IF v = 0 THEN 0 ELSE 1 + LenOf(v \div W)

\* inv_mod_alt(b) for odd b: -(b^-1) mod W by the doubling iteration
InvModAlt(b0) ==
    LET RECURSIVE go(_, _, _)
        go(i, t, k0) == IF i >= Bits THEN k0
                        ELSE LET t2 == (t * t) % W IN go(2 * i, t2, (k0 * (t2 + 1)) % W)
        k == go(1, (b0 - 1) % W, (2 - b0) % W)
    IN [ninv |-> (-k) % W, ok |-> (k * b0) % W = 1]

\* montgomery(x, y, m, k, n) on n-word values given as integers x, y < W^n (padded), m of n words
Montgomery(x, y, mod, k, n) ==
    LET xs == DigitsN(x, n)  ys == DigitsN(y, n)
        Wn == Pw(W, n)
        \* z is kept as an integer of 2n words; the window z[i .. n+i) is (z div W^i) mod W^n
        RECURSIVE loop(_, _, _)
        loop(i, z, c) ==
            IF i = n THEN [z |-> z, c |-> c]
            ELSE LET win  == (z \div Pw(W, i)) % Wn
                     t1   == win + x * ys[i + 1]                        \* add_mul_vvw(z[i..n+i], x, y[i])
                     c2   == t1 \div Wn
                     win1 == t1 % Wn
                     t    == ((win1 % W) * k) % W
                     t2   == win1 + mod * t                            \* add_mul_vvw(z[i..n+i], m, t)
                     c3   == t2 \div Wn
                     win2 == t2 % Wn
                     cx   == (c + c2) % W
                     cy   == (cx + c3) % W
                     cnew == IF Mut = "drop_cx" THEN (IF cy < c3 THEN 1 ELSE 0)
                             ELSE IF cx < c2 \/ cy < c3 THEN 1 ELSE 0
                     low  == z % Pw(W, i)
                     \* words below i, the updated window, then z[n+i] = cy (words above were still zero)
                     znew == low + win2 * Pw(W, i) + cy * Pw(W, n + i)
                 IN loop(i + 1, znew, cnew)
        r == loop(0, 0, 0)
        hi == r.z \div Wn
    IN IF r.c = 0 THEN hi
       ELSE IF Mut = "skip_sub" THEN hi % Wn
       ELSE (hi - mod) % Wn                                             \* sub_vv(first, second, m): wrapping difference

\* monty_modpow(x, y, m): m odd, y # 0 (y given as an integer; its words are processed from the top)
MontyModPow(x, y, mod) ==
    LET n   == LenOf(mod)
        k   == InvModAlt(mod % W)
        x1  == IF LenOf(x) > n THEN x % mod ELSE x
        rr  == Pw(W, 2 * n) % mod
        one == 1
        M(p, q) == Montgomery(p, q, mod, k.ninv, n)
        p0  == M(one, rr)
        p1  == M(x1, rr)
        RECURSIVE table(_, _)
        table(i, acc) == IF i = Pw(2, Win) THEN acc ELSE table(i + 1, Append(acc, M(acc[i], p1)))   \* powers[i] = M(powers[i-1], powers[1])
        powers == table(2, <<p0, p1>>)
        ny  == LenOf(y)
        ys  == DigitsN(y, ny)
        RECURSIVE sq(_, _)
        sq(z, t) == IF t = 0 THEN z ELSE sq(M(z, z), t - 1)
        RECURSIVE windows(_, _, _, _)
        windows(z, yi, j, first) ==
            IF j >= Bits THEN z
            ELSE LET z1 == IF first /\ j = 0 THEN z ELSE sq(z, Win)
                     z2 == M(z1, powers[(yi \div Pw(2, Bits - Win)) + 1])
                 IN windows(z2, (yi * Pw(2, Win)) % W, j + Win, first)
        RECURSIVE words(_, _)
        words(z, i) == IF i = 0 THEN z ELSE words(windows(z, ys[i], 0, i = ny), i - 1)
        zfin == words(p0, ny)
        zz   == M(zfin, one)
        r1   == IF zz >= mod THEN zz - mod ELSE zz
        r2   == IF zz >= mod /\ r1 >= mod THEN r1 % mod ELSE r1
    IN [v |-> r2, ok |-> k.ok, finalsubs |-> IF zz >= mod THEN (IF r1 >= mod THEN 2 ELSE 1) ELSE 0]

\* plain_modpow(base, exp_data, modulus), exponent # 0, over words of Bits bits
PlainModPow(base, y, mod) ==
    LET ny == LenOf(y)
        ys == DigitsN(y, ny)
        i0 == CHOOSE i \in 1..ny : ys[i] # 0 /\ \A j \in 1..(i - 1) : ys[j] = 0      \* first non-zero word (1-based)
        RECURSIVE sqn(_, _)
        sqn(v, t) == IF t = 0 THEN v ELSE sqn((v * v) % mod, t - 1)
        base1 == sqn(base % mod, (i0 - 1) * Bits)
        RECURSIVE strip(_, _, _)
        strip(v, r, bb) == IF r % 2 = 0 THEN strip((v * v) % mod, r \div 2, bb + 1) ELSE <<v, r, bb>>
        st == strip(base1, ys[i0], 0)
        rest == SubSeq(ys, IF Mut = "rest_from_one" THEN 2 ELSE i0 + 1, ny)
    IN IF Len(rest) = 0 /\ st[2] = 1 THEN st[1]
       ELSE
       LET \* state <<base, acc>>; unit(odd): base = base^2; if odd: acc = acc * base
           unit(s, odd) == LET nb == (s[1] * s[1]) % mod IN <<nb, IF odd THEN (s[2] * nb) % mod ELSE s[2]>>
           RECURSIVE bitsN(_, _, _)
           bitsN(s, r, cnt) == IF cnt = 0 THEN s ELSE bitsN(unit(s, r % 2 = 1), r \div 2, cnt - 1)
           RECURSIVE bitsAll(_, _)
           bitsAll(s, r) == IF r = 0 THEN s ELSE bitsAll(unit(s, r % 2 = 1), r \div 2)
           s0 == <<st[1], st[1]>>
           r0 == st[2] \div 2
           b0 == st[3] + 1
       IN IF Len(rest) = 0 THEN bitsAll(s0, r0)[2]
          ELSE LET s1 == bitsN(s0, r0, Bits - b0)
                   mid == SubSeq(rest, 1, Len(rest) - 1)
                   RECURSIVE over(_, _)
                   over(s, k) == IF k > Len(mid) THEN s ELSE over(bitsN(s, mid[k], Bits), k + 1)
                   s2 == over(s1, 1)
               IN bitsAll(s2, rest[Len(rest)])[2]

Odd(v) == v % 2 = 1
Init == /\ ph = 0 /\ b = 0 /\ e = 1
        /\ m \in {v \in 2..(Pw(W, NW) - 1) : TRUE}
Next == /\ ph = 0 /\ ph' = 1 /\ UNCHANGED m
        /\ b' \in 0..MaxBase /\ e' \in 1..MaxExp
Expected == PwMod(b % m, e, m)
Inv == ph = 1 =>
         IF Odd(m)
         THEN LET r == MontyModPow(b, e, m) IN r.ok /\ r.v = Expected
         ELSE PlainModPow(b, e, m) = Expected
=============================================================================
