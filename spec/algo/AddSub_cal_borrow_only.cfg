CONSTANTS B = 2  Block = 5  MaxLen = 7  Mut = "borrow_only"
INIT Init
NEXT Next
INVARIANT Inv
CHECK_DEADLOCK FALSE
