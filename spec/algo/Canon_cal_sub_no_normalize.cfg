SPECIFICATION Spec
CONSTANTS Base = 2
          L0 = 2
          L = 5
          Mut = "sub_no_normalize"
INVARIANTS CanonInv EqInv OrdInv StepInv
CHECK_DEADLOCK FALSE
