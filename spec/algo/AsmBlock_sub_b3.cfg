CONSTANTS B = 3  MinN = 0  MaxN = 6  Mode = "sub"
SPECIFICATION Spec
INVARIANTS Safe RhsUntouched Contract
CHECK_DEADLOCK FALSE
