CONSTANTS B = 2  TLong = 2  TKara = 6  MinL = 0  MaxL = 9  Mut = "mul3_short"
INIT Init
NEXT Next
INVARIANT Inv
CHECK_DEADLOCK FALSE
