SPECIFICATION Spec
CONSTANTS Base = 4
          L0 = 2
          L = 4
          Mut = "none"
INVARIANTS CanonInv EqInv OrdInv StepInv
CHECK_DEADLOCK FALSE
