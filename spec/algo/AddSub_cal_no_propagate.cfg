CONSTANTS B = 2  Block = 5  MaxLen = 7  Mut = "no_propagate"
INIT Init
NEXT Next
INVARIANT Inv
CHECK_DEADLOCK FALSE
