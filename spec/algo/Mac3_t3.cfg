CONSTANTS B = 3  TLong = 1  TKara = 4  MinL = 0  MaxL = 6  Mut = "none"
INIT Init
NEXT Next
INVARIANT Inv
CHECK_DEADLOCK FALSE
