CONSTANTS Bits = 2  Win = 2  NW = 2  MaxBase = 63  MaxExp = 39  Mut = "drop_cx"
INIT Init
NEXT Next
INVARIANT Inv
CHECK_DEADLOCK FALSE
