------------------------------- MODULE ModInv -------------------------------
(***************************************************************************)
(* L2 for C05: BigUint::modinv (extended Euclid on unsigned values with    *)
(* the first iteration lifted out and every coefficient kept reduced) and  *)
(* the BigInt::modinv wrapper (reflection of the unsigned result by the    *)
(* signs of the two operands, zero left alone), transcribed from           *)
(* src/biguint.rs and src/bigint.rs.                                       *)
(* The loop is a state machine (one action per iteration) so that TLC      *)
(* checks on every reachable state: every unsigned subtraction has a       *)
(* non-negative result (the code would panic otherwise), every             *)
(* coefficient stays below the modulus, the Bezout relation                *)
(*      t0 * a == r0  and  t1 * a == r1   (mod m)                          *)
(* holds, and on termination the answer is Some(x) with 0 <= x < m and     *)
(* a x == 1 (mod m) exactly when gcd(a, m) = 1, None otherwise; for        *)
(* BigInt the answer lies in the interval with the sign of the modulus.    *)
(* Termination: the run always reaches ph = "done" (liveness under weak    *)
(* fairness of Next).                                                      *)
(***************************************************************************)
EXTENDS Integers, TLC
CONSTANTS MaxA, MaxM, Mut
VARIABLES a, m, sa, sm, r0, r1, t0, t1, ph, res, ok
vars == <<a, m, sa, sm, r0, r1, t0, t1, ph, res, ok>>

RECURSIVE Gcd(_, _)
Gcd(x, y) == IF y = 0 THEN x ELSE Gcd(y, x % y)
NONE == 1000003       \* marker outside every value range

Init == /\ a \in 0..MaxA /\ m \in 1..MaxM /\ sa \in {-1, 1} /\ sm \in {-1, 1}
        /\ ph = "start" /\ r0 = 0 /\ r1 = 0 /\ t0 = 0 /\ t1 = 0 /\ res = NONE /\ ok = TRUE

\* the prologue: modulus one, the reduced operand, the lifted first iteration
Start ==
    /\ ph = "start"
    /\ IF m = 1 THEN /\ res' = 0 /\ ph' = "wrap" /\ UNCHANGED <<r0, r1, t0, t1, ok>>
       ELSE LET x == a % m IN
            IF x = 0 THEN /\ res' = NONE /\ ph' = "wrap" /\ UNCHANGED <<r0, r1, t0, t1, ok>>
            ELSE IF x = 1 THEN /\ res' = 1 /\ ph' = "wrap" /\ UNCHANGED <<r0, r1, t0, t1, ok>>
            ELSE LET q == m \div x  r2 == m % x IN
                 IF r2 = 0 THEN /\ res' = NONE /\ ph' = "wrap" /\ UNCHANGED <<r0, r1, t0, t1, ok>>
                 ELSE /\ r0' = x /\ r1' = r2 /\ t0' = 1 /\ t1' = m - q
                      /\ ok' = (m - q >= 0)
                      /\ ph' = "loop" /\ UNCHANGED res
    /\ UNCHANGED <<a, m, sa, sm>>

\* one iteration of `while !r1.is_zero()`
Loop ==
    /\ ph = "loop"
    /\ IF r1 = 0 THEN /\ res' = (IF r0 = 1 THEN t0 ELSE NONE) /\ ph' = "wrap" /\ UNCHANGED <<r0, r1, t0, t1, ok>>
       ELSE LET q == r0 \div r1  r2 == r0 % r1
                prod == q * t1
                \* the seeded shortcut: skip the reduction when the product "cannot" exceed the modulus
                qt1 == IF Mut = "skip_reduce_short" /\ prod < 2 * m THEN prod ELSE prod % m
                less == IF Mut = "le_instead_of_lt" THEN t0 <= qt1 ELSE t0 < qt1
                t2 == IF less THEN t0 + (m - qt1) ELSE t0 - qt1
            IN /\ r0' = r1 /\ r1' = r2 /\ t0' = t1 /\ t1' = t2
               /\ ok' = (ok /\ (less => m - qt1 >= 0) /\ (~less => t0 - qt1 >= 0))
               /\ UNCHANGED <<res, ph>>
    /\ UNCHANGED <<a, m, sa, sm>>

\* BigInt wrapper: sign of the result follows the modulus; zero is not reflected
Wrap ==
    /\ ph = "wrap"
    /\ res' = IF res = NONE THEN NONE
              ELSE IF res = 0 /\ Mut # "reflect_zero" THEN 0
              ELSE LET mag == IF sa = sm THEN res ELSE m - res IN sm * mag
    /\ ph' = "done"
    /\ UNCHANGED <<a, m, sa, sm, r0, r1, t0, t1, ok>>

Next == Start \/ Loop \/ Wrap \/ (ph = "done" /\ UNCHANGED vars)
Spec == Init /\ [][Next]_vars /\ WF_vars(Start \/ Loop \/ Wrap)

\* floored remainder with the sign of a positive or negative modulus M
ModF(x, M) == IF M > 0 THEN x % M ELSE -((-x) % (-M))

Safe == ok
Reduced == ph = "loop" => t0 >= 0 /\ t0 < m /\ t1 >= 0 /\ t1 < m
Bezout == ph = "loop" => ((t0 * a - r0) % m = 0) /\ ((t1 * a - r1) % m = 0)
Answer == ph = "done" =>
    LET A == sa * a  M == sm * m IN
    IF Gcd(a % m, m) = 1
    THEN /\ res # NONE
         /\ (IF M > 0 THEN res >= 0 /\ res < M ELSE res <= 0 /\ res > M)
         /\ ModF(A * res, M) = ModF(1, M)
    ELSE res = NONE
Finishes == <>(ph = "done")
=============================================================================
