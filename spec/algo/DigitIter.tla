------------------------------ MODULE DigitIter ------------------------------
(***************************************************************************)
(* L2 for C09: the 64-bit-digit implementation of U32Digits                *)
(* (src/biguint/iter.rs: data slice, next_is_lo, last_hi_is_zero)          *)
(* transcribed next to its specification, a deque of the u32 digits.       *)
(* TLC explores every call history; Refines says every answer of the       *)
(* implementation state machine is the deque's answer.  With Depth > 0 a   *)
(* history variable records the calls and every history of that length is  *)
(* printed as a REPLAY line, which the harness executes on the real        *)
(* iterator (binding R).                                                   *)
(***************************************************************************)
EXTENDS Integers, Sequences, TLC, Json
CONSTANTS MaxLen,      \* native digits of the value: 0..MaxLen
          Halves,      \* set of u32 half-digit values used
          Depth        \* 0: refinement check only; > 0: also emit histories of this length

VARIABLES data, nextIsLo, lastHiIsZero,   \* implementation state
          dq,                             \* specification state: remaining u32 digits
          ret, aret,                      \* last answers (implementation / specification); <<>> is None
          h,                              \* history (only when Depth > 0)
          d0                              \* the value the iterator was created on
vars == <<data, nextIsLo, lastHiIsZero, dq, ret, aret, h, d0>>

\* canonical digit vectors: no high zero digit; a digit is <<lo, hi>>
Digit == Halves \X Halves
Canon(n) == {s \in [1..n -> Digit] : n = 0 \/ s[n] # <<0, 0>>}
Flat(s) == LET n == Len(s) IN
           IF n = 0 THEN <<>>
           ELSE LET all == [k \in 1..(2 * n) |-> s[(k + 1) \div 2][IF k % 2 = 1 THEN 1 ELSE 2]]
                IN IF s[n][2] = 0 THEN SubSeq(all, 1, 2 * n - 1) ELSE all

Init == /\ \E n \in 0..MaxLen : data \in Canon(n)
        /\ nextIsLo = TRUE
        /\ lastHiIsZero = (IF Len(data) = 0 THEN FALSE ELSE data[Len(data)][2] = 0)
        /\ dq = Flat(data)
        /\ ret = <<>> /\ aret = <<>>
        /\ h = <<>>
        /\ d0 = data

None == <<>>
Some(x) == <<x>>

(* ---- the implementation, as functions of a state record st = [d, lo, z] returning [st, ret] ---- *)
ImplNext(st) ==
    IF Len(st.d) = 0 THEN [st |-> st, ret |-> None]
    ELSE LET first == st.d[1]  rest == Tail(st.d) IN
         IF st.lo THEN [st |-> [d |-> st.d, lo |-> FALSE, z |-> st.z], ret |-> Some(first[1])]
         ELSE IF Len(rest) = 0 /\ st.z
              THEN [st |-> [d |-> rest, lo |-> TRUE, z |-> FALSE], ret |-> None]
              ELSE [st |-> [d |-> rest, lo |-> TRUE, z |-> st.z], ret |-> Some(first[2])]
ImplNextBack(st) ==
    IF Len(st.d) = 0 THEN [st |-> st, ret |-> None]
    ELSE LET n == Len(st.d)  last == st.d[n]  rest == SubSeq(st.d, 1, n - 1) IN
         IF st.z   \* last_is_lo
         THEN (IF Len(rest) = 0 /\ ~st.lo
               THEN [st |-> [d |-> rest, lo |-> TRUE, z |-> FALSE], ret |-> None]
               ELSE [st |-> [d |-> rest, lo |-> st.lo, z |-> FALSE], ret |-> Some(last[1])])
         ELSE [st |-> [d |-> st.d, lo |-> st.lo, z |-> TRUE], ret |-> Some(last[2])]
ImplLen(st) == 2 * Len(st.d) - (IF st.z THEN 1 ELSE 0) - (IF st.lo THEN 0 ELSE 1)
\* Iterator::nth / DoubleEndedIterator::nth_back defaults: k discarded calls, then one more
RECURSIVE ImplNth(_, _)
ImplNth(st, k) == LET r == ImplNext(st) IN
                  IF k = 0 THEN r ELSE IF r.ret = None THEN r ELSE ImplNth(r.st, k - 1)
RECURSIVE ImplNthBack(_, _)
ImplNthBack(st, k) == LET r == ImplNextBack(st) IN
                      IF k = 0 THEN r ELSE IF r.ret = None THEN r ELSE ImplNthBack(r.st, k - 1)

Cur == [d |-> data, lo |-> nextIsLo, z |-> lastHiIsZero]
Set(st) == data' = st.d /\ nextIsLo' = st.lo /\ lastHiIsZero' = st.z
Log(call, k, a) == h' = IF Depth > 0 THEN Append(h, [c |-> call, k |-> k, some |-> a # None, w |-> IF a = None THEN 0 ELSE a[1], n |-> 0]) ELSE h
LogN(call, n) == h' = IF Depth > 0 THEN Append(h, [c |-> call, k |-> 0, some |-> FALSE, w |-> 0, n |-> n]) ELSE h
Room == Depth = 0 \/ Len(h) < Depth

Next_ ==
    /\ Room
    /\ LET r == ImplNext(Cur) IN Set(r.st) /\ ret' = r.ret
    /\ aret' = (IF dq = <<>> THEN None ELSE Some(Head(dq)))
    /\ dq' = (IF dq = <<>> THEN dq ELSE Tail(dq))
    /\ Log("next", 0, aret')
NextBack ==
    /\ Room
    /\ LET r == ImplNextBack(Cur) IN Set(r.st) /\ ret' = r.ret
    /\ aret' = (IF dq = <<>> THEN None ELSE Some(dq[Len(dq)]))
    /\ dq' = (IF dq = <<>> THEN dq ELSE SubSeq(dq, 1, Len(dq) - 1))
    /\ Log("next_back", 0, aret')
Nth(k) ==
    /\ Room
    /\ LET r == ImplNth(Cur, k) IN Set(r.st) /\ ret' = r.ret
    /\ aret' = (IF k < Len(dq) THEN Some(dq[k + 1]) ELSE None)
    /\ dq' = (IF k < Len(dq) THEN SubSeq(dq, k + 2, Len(dq)) ELSE <<>>)
    /\ Log("nth", k, aret')
NthBack(k) ==
    /\ Room
    /\ LET r == ImplNthBack(Cur, k) IN Set(r.st) /\ ret' = r.ret
    /\ aret' = (IF k < Len(dq) THEN Some(dq[Len(dq) - k]) ELSE None)
    /\ dq' = (IF k < Len(dq) THEN SubSeq(dq, 1, Len(dq) - k - 1) ELSE <<>>)
    /\ Log("nth_back", k, aret')
LenOp ==
    /\ Room
    /\ ret' = Some(ImplLen(Cur)) /\ aret' = Some(Len(dq))
    /\ UNCHANGED <<data, nextIsLo, lastHiIsZero, dq>>
    /\ LogN("len", Len(dq))
\* last(self) consumes the iterator: it is next_back in the code; the deque answers with its back element
LastOp ==
    /\ Room
    /\ LET r == ImplNextBack(Cur) IN Set([d |-> <<>>, lo |-> TRUE, z |-> FALSE]) /\ ret' = r.ret
    /\ aret' = (IF dq = <<>> THEN None ELSE Some(dq[Len(dq)]))
    /\ dq' = <<>>
    /\ Log("last", 0, aret')

Next == /\ UNCHANGED d0
        /\ \/ Next_ \/ NextBack \/ LenOp \/ LastOp \/ (\E k \in 0..2 : Nth(k) \/ NthBack(k))
Spec == Init /\ [][Next]_vars

Refines == ret = aret
LenAgrees == ImplLen(Cur) = Len(dq)
\* emit every complete history once: the first element is the value (its native digits as <<lo, hi>> pairs)
Emit == (Depth > 0 /\ Len(h) = Depth) => PrintT(<<"REPLAY", ToJson([data |-> d0, calls |-> h])>>)
=============================================================================
