CONSTANTS MaxX = 5000  MaxN = 7  Mut = "none"
SPECIFICATION Spec
INVARIANT Inv
PROPERTY Finishes
CHECK_DEADLOCK FALSE
