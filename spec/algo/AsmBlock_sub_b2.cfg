CONSTANTS B = 2  MinN = 0  MaxN = 8  Mode = "sub"
SPECIFICATION Spec
INVARIANTS Safe RhsUntouched Contract
CHECK_DEADLOCK FALSE
