CONSTANTS B = 8  MaxU = 3  MaxD = 2  Mut = "none"
INIT Init
NEXT Next
INVARIANT Inv
CHECK_DEADLOCK FALSE
