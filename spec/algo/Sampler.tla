------------------------------- MODULE Sampler -------------------------------
(***************************************************************************)
(* L2 for C18: src/bigrand.rs as a state machine that consumes an RNG      *)
(* stream one word at a time (words of WB bits stand for the 32-bit words, *)
(* a native digit is two words).                                           *)
(*   gen_biguint(n)      : len = ceil(n / WB) words filled in order, the    *)
(*                         last one shifted right by WB - n % WB; the words *)
(*                         are written through a u32 view of a zeroed u64   *)
(*                         buffer of ceil(n / 2WB) digits (C15: the view    *)
(*                         never leaves the buffer)                         *)
(*   gen_bigint(n)       : magnitude, then one sign word; (zero, "plus")   *)
(*                         is drawn again so that zero is not twice as     *)
(*                         likely as any other value                       *)
(*   gen_biguint_below(b): rejection loop on candidates of bits(b) bits     *)
(*   gen_biguint_range, gen_bigint_range (three arms), Uniform(low, high)   *)
(*   and its inclusive constructor (len = high - low + 1)                   *)
(* The stream is chosen in Init (the adversary), so one behaviour = one    *)
(* call on one RNG state.  Invariants at `done`: the documented interval,  *)
(* the buffer discipline, and agreement with the FUNCTIONAL definition the  *)
(* trace specification uses (NumApi.GenBits / GenBelow / GenBigInt, here    *)
(* over integers).  ASSUMEs, evaluated by TLC on the functional definition: *)
(* every value of the interval is produced by some stream (coverage), and   *)
(* by equally many one-candidate streams (no bias).                         *)
(***************************************************************************)
EXTENDS Integers, Sequences, FiniteSets, TLC

CONSTANTS WB,        \* bits per RNG word (32 in the code)
          MaxDraw,   \* stream length explored
          MaxBits,   \* gen_biguint / gen_bigint sizes 0..MaxBits
          MaxBound,  \* bounds 1..MaxBound, range endpoints within -MaxEnd..MaxEnd
          MaxEnd,
          Mut

Word == 0..(2 ^ WB - 1)
RECURSIVE BitLen(_)
BitLen(k) == IF k = 0 THEN 0 ELSE 1 + BitLen(k \div 2)
CeilDiv(x, y) == (x + y - 1) \div y

\* ------------------------------------------------------------ functional definition (what the trace rule demands)
\* candidate of n bits starting after k consumed words: [ok, v, k]
RECURSIVE WordsVal(_, _, _, _)
WordsVal(s, k, len, i) == IF i > len THEN 0 ELSE s[k + i] * 2 ^ (WB * (i - 1)) + WordsVal(s, k, len, i + 1)
FBits(s, k, n) ==
    LET len == CeilDiv(n, WB)  rem == n % WB IN
    IF k + len > Len(s) THEN [ok |-> FALSE, v |-> 0, k |-> k]
    ELSE IF len = 0 THEN [ok |-> TRUE, v |-> 0, k |-> k]
    ELSE LET lower == WordsVal(s, k, len - 1, 1)
             top   == IF rem = 0 THEN s[k + len] ELSE s[k + len] \div 2 ^ (WB - rem)
         IN [ok |-> TRUE, v |-> lower + top * 2 ^ (WB * (len - 1)), k |-> k + len]
RECURSIVE FBelow(_, _, _)
FBelow(s, k, b) == LET c == FBits(s, k, BitLen(b)) IN
                   IF ~c.ok THEN c ELSE IF c.v < b THEN c ELSE FBelow(s, c.k, b)
SignBit(w) == w >= 2 ^ (WB - 1)              \* rng.gen::<bool>() takes the top bit of one word
RECURSIVE FBigInt(_, _, _)
FBigInt(s, k, n) == LET c == FBits(s, k, n) IN
                    IF ~c.ok \/ c.k + 1 > Len(s) THEN [ok |-> FALSE, v |-> 0, k |-> k]
                    ELSE LET plus == SignBit(s[c.k + 1]) IN
                         IF c.v = 0 THEN (IF plus THEN FBigInt(s, c.k + 1, n) ELSE [ok |-> TRUE, v |-> 0, k |-> c.k + 1])
                         ELSE [ok |-> TRUE, v |-> IF plus THEN c.v ELSE -c.v, k |-> c.k + 1]
FRange(s, lo, hi) == LET c == FBelow(s, 0, hi - lo) IN [c EXCEPT !.v = lo + c.v]

\* ------------------------------------------------------------ requests
Reqs == {[op |-> "bits", n |-> n] : n \in 0..MaxBits}
        \cup {[op |-> "bigint", n |-> n] : n \in 0..MaxBits}
        \cup {[op |-> "below", b |-> b] : b \in 1..MaxBound}
        \cup {[op |-> "urange", lo |-> lo, hi |-> hi] : lo \in 0..MaxEnd, hi \in 0..MaxEnd}
        \cup {[op |-> "irange", lo |-> lo, hi |-> hi] : lo \in (-MaxEnd)..MaxEnd, hi \in (-MaxEnd)..MaxEnd}
        \cup {[op |-> "uniform_incl", lo |-> lo, hi |-> hi] : lo \in (-MaxEnd)..MaxEnd, hi \in (-MaxEnd)..MaxEnd}
Documented(r) == IF r.op \in {"urange", "irange"} THEN r.lo < r.hi          \* the assert!s of the code: other requests panic
                 ELSE IF r.op = "uniform_incl" THEN r.lo <= r.hi ELSE TRUE
Interval(r) == CASE r.op = "bits"   -> 0..(2 ^ r.n - 1)
                 [] r.op = "bigint" -> (-(2 ^ r.n) + 1)..(2 ^ r.n - 1)
                 [] r.op = "below"  -> 0..(r.b - 1)
                 [] r.op \in {"urange", "irange"} -> r.lo..(r.hi - 1)
                 [] r.op = "uniform_incl" -> r.lo..r.hi
Func(r, s) == CASE r.op = "bits"   -> FBits(s, 0, r.n)
                [] r.op = "bigint" -> FBigInt(s, 0, r.n)
                [] r.op = "below"  -> FBelow(s, 0, r.b)
                [] r.op \in {"urange", "irange"} -> FRange(s, r.lo, r.hi)
                [] r.op = "uniform_incl" -> FRange(s, r.lo, r.hi + 1)

\* ------------------------------------------------------------ the machine
VARIABLES req, s, pc, k, bits, bound, base, flip, len, i, buf, cand, res
vars == <<req, s, pc, k, bits, bound, base, flip, len, i, buf, cand, res>>
\* buf: the u64 buffer seen as words (2 per native digit, zero-initialised); cand: the candidate value; base/flip: how the
\* caller maps the bounded sample into its range (res = base + cand, or base - cand when a mutant reflects)

NativeLen(n) == CeilDiv(n, 2 * WB)
Start(r) ==
    CASE r.op = "bits"   -> [bits |-> r.n, bound |-> 0, base |-> 0, pc |-> "alloc"]
      [] r.op = "bigint" -> [bits |-> r.n, bound |-> 0, base |-> 0, pc |-> "alloc"]
      [] r.op = "below"  -> [bits |-> BitLen(r.b), bound |-> r.b, base |-> 0, pc |-> "alloc"]
      [] r.op = "urange" -> LET w == IF r.lo = 0 THEN r.hi ELSE r.hi - r.lo IN      \* lbound.is_zero() arm, else ubound - lbound
                            [bits |-> BitLen(w), bound |-> w, base |-> r.lo, pc |-> "alloc"]
      [] r.op = "irange" -> LET w == IF r.lo = 0 THEN r.hi                         \* |ubound|
                                     ELSE IF r.hi = 0 THEN -r.lo                   \* |lbound|
                                     ELSE r.hi - r.lo                              \* |delta|
                            IN [bits |-> BitLen(w), bound |-> w, base |-> r.lo, pc |-> "alloc"]
      [] r.op = "uniform_incl" -> LET w == r.hi - r.lo + 1 IN [bits |-> BitLen(w), bound |-> w, base |-> r.lo, pc |-> "alloc"]

Init == /\ req \in {r \in Reqs : Documented(r)}
        /\ s \in [1..MaxDraw -> Word]
        /\ LET st == Start(req) IN bits = st.bits /\ bound = st.bound /\ base = st.base /\ pc = st.pc
        /\ flip = (Mut = "ubound_zero_reflect" /\ req.op = "irange" /\ req.hi = 0)
        /\ k = 0 /\ len = 0 /\ i = 0 /\ buf = <<>> /\ cand = 0 /\ res = 0

\* vec![0u64; native_len] seen through the u32 pointer: len words will be written
Alloc == /\ pc = "alloc"
         /\ len' = CeilDiv(bits, WB)
         /\ buf' = [j \in 1..(2 * (IF Mut = "native_floor" THEN bits \div (2 * WB) ELSE NativeLen(bits))) |-> 0]
         /\ i' = 1
         /\ pc' = "fill"
         /\ UNCHANGED <<req, s, k, bits, bound, base, flip, cand, res>>
\* rng.fill(data): one word per step, in order; then the shift of the last word
Fill == /\ pc = "fill"
        /\ IF i <= len
           THEN /\ k < Len(s)                                   \* a stream that ends here is outside the explored bound
                /\ i <= Len(buf)                                \* C15: a write outside the buffer has no successor; OutOfBuffer flags it
                /\ buf' = [buf EXCEPT ![i] = s[k + 1]]
                /\ k' = k + 1 /\ i' = i + 1 /\ pc' = "fill"
           ELSE /\ buf' = IF ((bits % WB) > 0) /\ (Mut # "no_top_shift") THEN [buf EXCEPT ![len] = buf[len] \div (2 ^ (WB - (bits % WB)))] ELSE buf
                /\ k' = k /\ i' = i /\ pc' = "value"
        /\ UNCHANGED <<req, s, bits, bound, base, flip, len, cand, res>>
RECURSIVE BufVal(_, _)
BufVal(b, j) == IF j > Len(b) THEN 0 ELSE b[j] * 2 ^ (WB * (j - 1)) + BufVal(b, j + 1)
\* biguint_from_vec(data): the whole buffer is the value (unwritten words are the zeros of the allocation)
Value == /\ pc = "value"
         /\ cand' = BufVal(buf, 1)
         /\ pc' = CASE req.op = "bits" -> "finish" [] req.op = "bigint" -> "sign" [] OTHER -> "test"
         /\ UNCHANGED <<req, s, k, bits, bound, base, flip, len, i, buf, res>>
\* gen_biguint_below: `if n < *bound { return n }` else draw again
Test == /\ pc = "test"
        /\ IF cand < bound \/ (Mut = "le_bound" /\ cand = bound) THEN pc' = "finish" /\ cand' = cand
           ELSE IF Mut = "fold_back" THEN pc' = "finish" /\ cand' = cand - bound
           ELSE pc' = "alloc" /\ cand' = cand
        /\ UNCHANGED <<req, s, k, bits, bound, base, flip, len, i, buf, res>>
\* gen_bigint: one more word decides the sign; zero with the "plus" bit is rejected
Sign == /\ pc = "sign"
        /\ k < Len(s)
        /\ k' = k + 1
        /\ LET plus == SignBit(s[k + 1]) IN
           IF cand = 0 /\ plus /\ Mut # "no_zero_retry" THEN pc' = "alloc" /\ res' = res
           ELSE pc' = "done" /\ res' = IF plus THEN cand ELSE -cand
        /\ UNCHANGED <<req, s, bits, bound, base, flip, len, i, buf, cand>>
Finish == /\ pc = "finish"
          /\ res' = IF flip THEN -cand ELSE base + cand
          /\ pc' = "done"
          /\ UNCHANGED <<req, s, k, bits, bound, base, flip, len, i, buf, cand>>
Next == Alloc \/ Fill \/ Value \/ Test \/ Sign \/ Finish
Spec == Init /\ [][Next]_vars

\* ------------------------------------------------------------ properties
InBounds    == pc = "done" => res \in Interval(req)                                   \* C18: stays within the requested bounds
AsSpecified == pc = "done" => LET f == Func(req, s) IN f.ok /\ f.v = res /\ f.k = k   \* the value AND the number of words consumed
OutOfBuffer == pc = "fill" /\ i <= len => i <= Len(buf)                               \* C15: the u32 view stays inside the u64 buffer
BufferInv   == /\ OutOfBuffer
               /\ pc \in {"fill", "value"} => len <= Len(buf)                          \* the debug_assert!(native_len * 2 >= len)

\* ------------------------------------------------------------ coverage and absence of bias (on the functional definition)
Streams(n) == [1..n -> Word]
OneShot(r) == CASE r.op = "bits" -> CeilDiv(r.n, WB) [] r.op = "bigint" -> CeilDiv(r.n, WB) + 1
                [] r.op = "below" -> CeilDiv(BitLen(r.b), WB)
                [] r.op \in {"urange", "irange"} -> CeilDiv(BitLen(r.hi - r.lo), WB)
                [] r.op = "uniform_incl" -> CeilDiv(BitLen(r.hi - r.lo + 1), WB)
\* among the streams of exactly one candidate's length, every value of the interval is produced, each by the same number of streams
Hits(r, v) == Cardinality({t \in Streams(OneShot(r)) : LET f == Func(r, t) IN f.ok /\ f.v = v})
Unbiased(r) == LET ref == Hits(r, CHOOSE w \in Interval(r) : TRUE)
               IN ref > 0 /\ \A v \in Interval(r) : Hits(r, v) = ref
CoverageHolds == \A r \in {q \in Reqs : Documented(q) /\ OneShot(q) <= MaxDraw} : Unbiased(r)
ASSUME CoverageHolds
=============================================================================
