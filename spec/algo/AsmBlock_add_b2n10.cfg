CONSTANTS B = 2  MinN = 10  MaxN = 10  Mode = "add"
SPECIFICATION Spec
INVARIANTS Safe RhsUntouched Contract
CHECK_DEADLOCK FALSE
