CONSTANTS DB = 4  WB = 8  P = 4  MaxBits = 18  Mut = "none"
INIT Init
NEXT Next
INVARIANT Inv
CHECK_DEADLOCK FALSE
