CONSTANTS MaxLen = 2  Halves = {0, 1, 2}  Depth = 4
SPECIFICATION Spec
INVARIANTS Refines LenAgrees Emit
CHECK_DEADLOCK FALSE
