CONSTANTS Bits = 3  MaxLen = 4  Mut = "none"
INIT Init
NEXT Next
INVARIANT Inv
CHECK_DEADLOCK FALSE
