CONSTANTS MaxX = 600  MaxN = 5  Mut = "down_ge"
SPECIFICATION Spec
INVARIANT Inv
PROPERTY Finishes
CHECK_DEADLOCK FALSE
