------------------------------- MODULE Canon -------------------------------
(***************************************************************************)
(* L2 for C04: the representation discipline of BigUint / BigInt as a      *)
(* state machine over raw digit vectors.                                   *)
(*                                                                         *)
(* A value is [s |-> sign, d |-> digit vector].  Every operation below is   *)
(* written the way the library writes it: a RAW digit-level effect (the     *)
(* vector the loop leaves behind, with whatever zero digits it leaves on    *)
(* top) followed by the FIX-UP that particular site applies (`normalize`,   *)
(* `push carry only if non-zero`, `BigInt::from_biguint` repairing a sign / *)
(* zero mismatch, `truncate`, nothing at all).  Two registers evolve under  *)
(* every operation in every order; the invariant says that whatever        *)
(* history produced them                                                   *)
(*   - both are canonical (no zero top digit, NoSign iff empty),            *)
(*   - the derived structural equality coincides with equality of values,  *)
(*   - the library's length-first comparison (`cmp_slice`, which is only   *)
(*     right on canonical vectors) orders them as the integers do, and     *)
(*   - the value written by each step is the mathematical result.          *)
(* `Mut` removes one fix-up at a time (calibration): each must be rejected. *)
(***************************************************************************)
EXTENDS Integers, Sequences, FiniteSets, TLC

CONSTANTS Base,      \* digit base
          L0,        \* initial registers: every canonical value of at most L0 digits
          L,         \* state constraint: at most L digits
          Mut        \* "none" or the name of a removed fix-up

VARIABLES a, b       \* two registers

Digit == 0..(Base - 1)
Dig(s, i) == IF i >= 1 /\ i <= Len(s) THEN s[i] ELSE 0
RECURSIVE ValFrom(_, _)
ValFrom(s, i) == IF i > Len(s) THEN 0 ELSE s[i] + Base * ValFrom(s, i + 1)
Val(s) == ValFrom(s, 1)
ZVal(x) == x.s * Val(x.d)
Zeros(n) == [i \in 1..n |-> 0]

\* ---------------------------------------------------------------- fix-ups
RECURSIVE Strip(_)
Strip(s) == IF Len(s) > 0 /\ s[Len(s)] = 0 THEN Strip(SubSeq(s, 1, Len(s) - 1)) ELSE s   \* BigUint::normalize
Normalize(s, site) == IF Mut = site THEN s ELSE Strip(s)
\* BigInt::from_biguint(sign, data): NoSign empties the data, an empty magnitude forces NoSign
FromBiguint(sg, d) ==
    IF sg = 0 THEN [s |-> 0, d |-> IF Mut = "from_biguint_nosign_keeps_data" THEN d ELSE <<>>]
    ELSE IF d = <<>> /\ Mut # "from_biguint_zero_keeps_sign" THEN [s |-> 0, d |-> <<>>]
    ELSE [s |-> sg, d |-> d]

\* ---------------------------------------------------------------- raw digit loops
\* __add2 on the longer operand's clone, carry pushed only when non-zero (no normalize follows)
RECURSIVE AddLoop(_, _, _, _, _)
AddLoop(x, y, i, c, out) ==
    IF i > Len(x) THEN (IF c # 0 \/ Mut = "add_always_push" THEN Append(out, c) ELSE out)
    ELSE LET t == x[i] + Dig(y, i) + c IN AddLoop(x, y, i + 1, t \div Base, Append(out, t % Base))
RawAdd(x, y) == IF Len(x) >= Len(y) THEN AddLoop(x, y, 1, 0, <<>>) ELSE AddLoop(y, x, 1, 0, <<>>)

\* sub2 (x >= y as values): digit loop with borrow over the whole of x; leaves zero digits on top
RECURSIVE SubLoop(_, _, _, _, _)
SubLoop(x, y, i, bw, out) ==
    IF i > Len(x) THEN out
    ELSE LET t == x[i] - Dig(y, i) - bw IN
         SubLoop(x, y, i + 1, IF t < 0 THEN 1 ELSE 0, Append(out, IF t < 0 THEN t + Base ELSE t))
RawSub(x, y) == SubLoop(x, y, 1, 0, <<>>)

\* cmp_slice: length first, then digits from the top.  Right only on canonical vectors.
RECURSIVE CmpTop(_, _, _)
CmpTop(x, y, i) == IF i = 0 THEN 0 ELSE IF x[i] < y[i] THEN -1 ELSE IF x[i] > y[i] THEN 1 ELSE CmpTop(x, y, i - 1)
CmpSlice(x, y) == IF Len(x) < Len(y) THEN -1 ELSE IF Len(x) > Len(y) THEN 1 ELSE CmpTop(x, y, Len(x))
\* BigInt::cmp: signs first, then magnitudes (reversed for two negatives)
ZCmp(x, y) == IF x.s # y.s THEN (IF x.s < y.s THEN -1 ELSE 1)
              ELSE IF x.s = 0 THEN 0 ELSE IF x.s = 1 THEN CmpSlice(x.d, y.d) ELSE CmpSlice(y.d, x.d)

\* int -> raw vector of exactly n digits (how a `vec![0; n]` result buffer looks after the loop filled it)
RECURSIVE Digits(_, _)
Digits(k, n) == IF n = 0 THEN <<>> ELSE <<k % Base>> \o Digits(k \div Base, n - 1)

\* ---------------------------------------------------------------- operations (raw effect, then the site's fix-up)
MagAdd(x, y) == RawAdd(x, y)                                            \* no fix-up: the carry rule keeps the top digit non-zero
MagSub(x, y) == Normalize(RawSub(x, y), "sub_no_normalize")             \* biguint Sub: sub2 then normalize
\* BigInt + BigInt (src/bigint/addition.rs): a NoSign operand returns the other one; equal signs add magnitudes;
\* opposite signs compare magnitudes first and return ZERO on Equal
ZAdd(x, y) ==
    IF y.s = 0 THEN x ELSE IF x.s = 0 THEN y
    ELSE IF x.s = y.s THEN FromBiguint(x.s, MagAdd(x.d, y.d))
    ELSE LET c == CmpSlice(x.d, y.d) IN
         IF c = 0 THEN (IF Mut = "add_equal_keeps_sign" THEN [s |-> x.s, d |-> Normalize(RawSub(x.d, y.d), "none")] ELSE [s |-> 0, d |-> <<>>])
         ELSE IF c > 0 THEN FromBiguint(x.s, MagSub(x.d, y.d)) ELSE FromBiguint(y.s, MagSub(y.d, x.d))
ZNeg(x) == [s |-> -x.s, d |-> x.d]                                     \* Neg flips the sign only: canonical zero stays NoSign
ZSub(x, y) == ZAdd(x, ZNeg(y))
\* mul3: early return for an empty operand, else a zeroed buffer of len x + len y + 1, filled, normalized
MagMul(x, y) == IF x = <<>> \/ y = <<>> THEN <<>>
                ELSE Normalize(Digits(Val(x) * Val(y), Len(x) + Len(y) + 1), "mul_no_normalize")
ZMul(x, y) == FromBiguint(x.s * y.s, MagMul(x.d, y.d))
\* div_rem (y # 0): quotient buffer of len x - len y + 1 normalized, remainder normalized; truncating signs
MagDiv(x, y) == IF CmpSlice(x, y) < 0 THEN <<>> ELSE Normalize(Digits(Val(x) \div Val(y), Len(x) - Len(y) + 1), "div_no_normalize")
MagRem(x, y) == IF CmpSlice(x, y) < 0 THEN x ELSE Normalize(Digits(Val(x) % Val(y), Len(y)), "rem_no_normalize")
ZDiv(x, y) == FromBiguint(x.s * y.s, MagDiv(x.d, y.d))
ZRem(x, y) == FromBiguint(x.s, MagRem(x.d, y.d))
\* biguint_shl: zero stays zero; k whole digits of zeros, then the bit shift with the carry pushed when non-zero (Base = 2^w)
MagShlDigits(x, k) == IF x = <<>> THEN <<>> ELSE Zeros(k) \o x
\* biguint_shr: drop k whole digits; then normalized
MagShrDigits(x, k) == IF k >= Len(x) THEN <<>> ELSE Normalize(SubSeq(x, k + 1, Len(x)), "none")
\* bit shift by one inside a digit (Base even): raw loop leaves a zero top digit when the top digit was 1
RECURSIVE Shr1Loop(_, _, _, _)
Shr1Loop(x, i, c, out) == IF i = 0 THEN out ELSE Shr1Loop(x, i - 1, x[i] % 2, <<(x[i] \div 2) + c * (Base \div 2)>> \o out)
MagShr1(x) == Normalize(Shr1Loop(x, Len(x), 0, <<>>), "shr_no_normalize")
\* BigInt >> 1 rounds toward minus infinity: negative odd values add one after the shift
ZShr1(x) == LET m == MagShr1(x.d)
                r == IF x.s = -1 /\ x.d # <<>> /\ x.d[1] % 2 = 1 THEN MagAdd(m, <<1>>) ELSE m
            IN FromBiguint(x.s, r)
\* BigUint & (Base 2): zip over the common prefix, truncate to the shorter length, normalize
MagAnd(x, y) == LET n == IF Len(x) < Len(y) THEN Len(x) ELSE Len(y)
                    raw == [i \in 1..(IF Mut = "and_no_truncate" THEN Len(x) ELSE n) |-> IF i <= n THEN x[i] * y[i] ELSE x[i]]
                IN Normalize(raw, "and_no_normalize")
AndVal(x, y) == Val([i \in 1..(IF Len(x) < Len(y) THEN Len(x) ELSE Len(y)) |-> x[i] * y[i]])   \* the integer x AND y at Base 2
\* BigUint ^ at Base 2: digitwise over the longer length, normalize
MagXor(x, y) == LET n == IF Len(x) > Len(y) THEN Len(x) ELSE Len(y) IN
                Normalize([i \in 1..n |-> (Dig(x, i) + Dig(y, i)) % 2], "xor_no_normalize")
\* set_bit(i, false) on a magnitude at Base 2: clears digit i + 1, then normalize
MagClear(x, i) == IF i + 1 > Len(x) THEN x ELSE Normalize([x EXCEPT ![i + 1] = 0], "clearbit_no_normalize")
\* constructors: BigUint::new(raw digits) normalizes; BigInt::from_biguint / assign_from_slice repair (sign, magnitude) mismatches
New(raw) == Normalize(raw, "new_no_normalize")

Raws(n) == UNION {[1..k -> Digit] : k \in 0..n}
Canon(x) == /\ x.s \in {-1, 0, 1}
            /\ (x.d = <<>>) <=> (x.s = 0)
            /\ (x.d # <<>> => x.d[Len(x.d)] # 0)
Small(x) == Len(x.d) <= L

\* every operation on the current registers: <<name, the record the library would build, the integer it must denote>>
Ops(x, y) ==
    {<<"add", ZAdd(x, y), ZVal(x) + ZVal(y)>>, <<"sub", ZSub(x, y), ZVal(x) - ZVal(y)>>,
     <<"neg", ZNeg(x), -ZVal(x)>>, <<"mul", ZMul(x, y), ZVal(x) * ZVal(y)>>,
     <<"shr1", ZShr1(x), ZVal(x) \div 2>>}                              \* TLC's \div floors, as the library's >> does
    \cup (IF y.s # 0 THEN {<<"div", ZDiv(x, y), x.s * y.s * (Val(x.d) \div Val(y.d))>>,
                           <<"rem", ZRem(x, y), x.s * (Val(x.d) % Val(y.d))>>} ELSE {})
    \cup {<<"shl_digits", FromBiguint(x.s, MagShlDigits(x.d, k)), ZVal(x) * Base ^ k>> : k \in 1..2}
    \cup (IF x.s >= 0 THEN {<<"shr_digits", FromBiguint(x.s, MagShrDigits(x.d, k)), ZVal(x) \div Base ^ k>> : k \in 1..2} ELSE {})
    \cup (IF Base = 2 /\ x.s >= 0 /\ y.s >= 0
          THEN {<<"and", FromBiguint(1, MagAnd(x.d, y.d)), AndVal(x.d, y.d)>>,
                <<"xor", FromBiguint(1, MagXor(x.d, y.d)), AndVal(x.d, x.d) + AndVal(y.d, y.d) - 2 * AndVal(x.d, y.d)>>}
               \cup {<<"clear_bit", FromBiguint(x.s, MagClear(x.d, i)), Val(x.d) - Dig(x.d, i + 1) * Base ^ i>> : i \in 0..(L - 1)}
          ELSE {})
    \cup {<<"from_parts", FromBiguint(sg, New(raw)), sg * Val(raw)>> : raw \in Raws(L0 + 1), sg \in {-1, 0, 1}}

Next == \E t \in Ops(a, b) \cup Ops(b, a) :
            /\ Small(t[2])
            /\ \/ a' = t[2] /\ b' = b
               \/ b' = t[2] /\ a' = a

Init == /\ a \in {x \in [s : {-1, 0, 1}, d : Raws(L0)] : Canon(x)}
        /\ b \in {x \in [s : {-1, 0, 1}, d : Raws(L0)] : Canon(x)}
Spec == Init /\ [][Next]_<<a, b>>

\* ---------------------------------------------------------------- properties
CanonInv == Canon(a) /\ Canon(b)                                   \* C04: the representation is a function of the value
EqInv    == (a = b) <=> (ZVal(a) = ZVal(b))                        \* derived Eq / Hash follow the value
Sgn(k)   == IF k < 0 THEN -1 ELSE IF k > 0 THEN 1 ELSE 0
OrdInv   == ZCmp(a, b) = Sgn(ZVal(a) - ZVal(b))                    \* Ord (length-first) follows the value
StepInv  == \A t \in Ops(a, b) \cup Ops(b, a) : ZVal(t[2]) = t[3]    \* every operation, from every reachable pair, denotes the right integer
=============================================================================
