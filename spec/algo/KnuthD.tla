------------------------------- MODULE KnuthD -------------------------------
(***************************************************************************)
(* L2 for C03: src/biguint/division.rs transcribed over digits in base B   *)
(* (a power of two): div_rem's pre-checks, the normalisation shift and     *)
(* un-shift, div_rem_digit, and div_rem_core with the two-by-one estimate, *)
(* the a0 == b0 saturation, the three-by-two refinement loop,              *)
(* sub_mul_digit_same_len with its offset carry, and add-back.             *)
(* TLC enumerates every dividend/divisor of the scaled instance and checks *)
(* q*d + r = u, r < d, and the internal conditions the code only           *)
(* debug_asserts: hi < divisor before every wide division, borrow == a0    *)
(* after every iteration, intermediate values inside the double digit.     *)
(***************************************************************************)
EXTENDS Integers, Sequences, TLC
CONSTANTS B, MaxU, MaxD,     \* digit base; maximal lengths of dividend and divisor
          Mut                \* "none", or a seeded change of the transcription used to calibrate the instance
VARIABLES u, d, ph
MAXD == B - 1

RECURSIVE ValS(_)
ValS(s) == IF s = <<>> THEN 0 ELSE s[1] + B * ValS(Tail(s))
Canon(n) == {s \in [1..n -> 0..MAXD] : n = 0 \/ s[n] # 0}
RECURSIVE NormS(_)
NormS(s) == IF s = <<>> THEN s ELSE IF s[Len(s)] = 0 THEN NormS(SubSeq(s, 1, Len(s) - 1)) ELSE s
RECURSIVE Lz(_)
Lz(x) == IF x * 2 >= B THEN 0 ELSE 1 + Lz(x * 2)          \* leading zero bits of a non-zero digit

\* u << s and u >> s for 0 <= s < bits per digit (biguint_shl2 / shr2 with digits = 0)
ShlS(s, k) == LET m == 2 ^ k
                  RECURSIVE go(_, _)
                  go(t, c) == IF t = <<>> THEN (IF c = 0 THEN <<>> ELSE <<c>>)
                              ELSE LET x == t[1] * m + c IN <<x % B>> \o go(Tail(t), x \div B)
              IN IF k = 0 THEN s ELSE go(s, 0)
ShrS(s, k) == LET m == 2 ^ k
                  RECURSIVE go(_, _)
                  go(i, bo) == IF i = 0 THEN <<>>          \* from the top digit down, building little-endian
                               ELSE go(i - 1, (s[i] % m)) \o << (s[i] \div m) + bo * (B \div m) >>
              IN IF k = 0 THEN s ELSE NormS(go(Len(s), 0))

\* sub_mul_digit_same_len: a -= b*c on equal-length slices, offset carry; [a, borrow, ok]
SubMul(a, b, c) ==
    LET RECURSIVE go(_, _, _, _)
        go(i, oc, acc, ok) ==
            IF i > Len(a) THEN [a |-> acc, borrow |-> MAXD - oc, ok |-> ok]
            ELSE LET os == (MAXD * B + a[i]) - MAXD + oc - b[i] * c IN
                 go(i + 1, os \div B, Append(acc, os % B), ok /\ os >= 0 /\ os < B * B)
    IN go(1, MAXD, <<>>, Len(a) = Len(b))
\* __add2 on equal-length slices; [a, carry]
Add2(a, b) ==
    LET RECURSIVE go(_, _, _)
        go(i, c, acc) == IF i > Len(a) THEN [a |-> acc, carry |-> c]
                         ELSE LET t == a[i] + b[i] + c IN go(i + 1, t \div B, Append(acc, t % B))
    IN go(1, 0, <<>>)

\* one iteration of the main loop; st = [a, a0, q, pre, bor, dbl, kinds]
CoreIter(st, b, j) ==
    LET a  == st.a
        b0 == b[Len(b)]
        b1 == b[Len(b) - 1]
        a1 == a[Len(a)]
        a2 == a[Len(a) - 1]
        eq == ~(st.a0 < b0)
        q0i == IF ~eq THEN (st.a0 * B + a1) \div b0 ELSE (IF Mut = "sat_minus_one" THEN MAXD - 1 ELSE MAXD)
        ri  == IF ~eq THEN (st.a0 * B + a1) % b0 ELSE st.a0 + a1
        RECURSIVE refine(_, _, _)
        refine(q0, r, k) == IF r <= MAXD /\ (r * B + a2) < q0 * b1 THEN refine(q0 - 1, r + b0, k + 1) ELSE <<q0, r, k>>
        rf  == refine(q0i, ri, 0)
        low == SubSeq(a, 1, j)
        win == SubSeq(a, j + 1, Len(a))
        sm  == SubMul(win, b, rf[1])
        addback == Mut # "no_addback" /\ sm.borrow > st.a0
        ab  == Add2(sm.a, b)
        win2 == IF addback THEN ab.a ELSE sm.a
        bor2 == IF addback THEN sm.borrow - ab.carry ELSE sm.borrow
        q0f == IF addback THEN rf[1] - 1 ELSE rf[1]
        anew == low \o win2
    IN [a   |-> SubSeq(anew, 1, Len(anew) - 1),                   \* pop the top digit
        a0  |-> anew[Len(anew)],
        q   |-> [st.q EXCEPT ![j + 1] = q0f],
        pre |-> st.pre /\ (eq => st.a0 = b0) /\ Len(win) = Len(b),  \* hi < divisor, or the saturated branch with a0 == b0
        bor |-> st.bor /\ bor2 = st.a0,
        dbl |-> st.dbl /\ sm.ok /\ q0f >= 0 /\ q0f <= MAXD,
        kinds |-> st.kinds \cup {<<eq, rf[3], addback>>}]

\* div_rem_core(a, b): requires Len(a) >= Len(b) > 1 and the top bit of b set
Core(a, b) ==
    LET qlen == Len(a) - Len(b) + 1
        RECURSIVE loop(_, _)
        loop(st, j) == IF j < 0 THEN st ELSE loop(CoreIter(st, b, j), j - 1)
        fin == loop([a |-> a, a0 |-> 0, q |-> [i \in 1..qlen |-> 0], pre |-> TRUE, bor |-> TRUE, dbl |-> TRUE, kinds |-> {}], qlen - 1)
    IN [q |-> NormS(fin.q), r |-> NormS(Append(fin.a, fin.a0)), pre |-> fin.pre, bor |-> fin.bor, dbl |-> fin.dbl, kinds |-> fin.kinds]

\* div_rem_digit(a, b): one-digit divisor
DivDigit(a, b) ==
    LET RECURSIVE go(_, _, _, _)
        go(i, rem, acc, pre) == IF i = 0 THEN [q |-> NormS(acc), r |-> rem, pre |-> pre]
                                ELSE LET t == rem * B + a[i] IN go(i - 1, t % b, <<t \div b>> \o acc, pre /\ rem < b)
    IN go(Len(a), 0, <<>>, TRUE)

CmpS(x, y) == IF Len(x) # Len(y) THEN (IF Len(x) < Len(y) THEN -1 ELSE 1)
              ELSE IF ValS(x) < ValS(y) THEN -1 ELSE IF ValS(x) = ValS(y) THEN 0 ELSE 1

\* div_rem(u, d), d # 0: pre-checks, normalisation, core, un-shift
DivRem(x, y) ==
    LET ok == [q |-> <<>>, r |-> <<>>, pre |-> TRUE, bor |-> TRUE, dbl |-> TRUE, kinds |-> {}] IN
    IF x = <<>> THEN ok
    ELSE IF Len(y) = 1 THEN
         (IF y = <<1>> THEN [ok EXCEPT !.q = x]
          ELSE LET dd == DivDigit(x, y[1]) IN [ok EXCEPT !.q = dd.q, !.r = (IF dd.r = 0 THEN <<>> ELSE <<dd.r>>), !.pre = dd.pre])
    ELSE IF CmpS(x, y) < 0 THEN [ok EXCEPT !.r = x]
    ELSE IF CmpS(x, y) = 0 THEN [ok EXCEPT !.q = <<1>>]
    ELSE LET s == Lz(y[Len(y)]) IN
         IF s = 0 THEN Core(x, y)
         ELSE LET c == Core(ShlS(x, s), ShlS(y, s)) IN [c EXCEPT !.r = ShrS(c.r, s)]

\* the divisors are the initial states, the dividends their successors (so that workers share the enumeration)
Init == /\ u = <<>> /\ ph = 0
        /\ \E n \in 1..MaxD : d \in Canon(n)
Next == /\ ph = 0 /\ ph' = 1 /\ UNCHANGED d
        /\ \E n \in 1..MaxU : u' \in Canon(n)
Res == DivRem(u, d)
Correct == /\ ValS(Res.q) * ValS(d) + ValS(Res.r) = ValS(u)
           /\ ValS(Res.r) < ValS(d)
           /\ (Res.q = <<>> \/ Res.q[Len(Res.q)] # 0) /\ (Res.r = <<>> \/ Res.r[Len(Res.r)] # 0)
Internal == Res.pre /\ Res.bor /\ Res.dbl
\* the refinement loop runs at most twice per quotient digit (Knuth 4.3.1)
RefineBound == \A k \in Res.kinds : k[2] <= 2
Inv == Correct /\ Internal /\ RefineBound
=============================================================================
