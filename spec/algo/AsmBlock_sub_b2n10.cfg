CONSTANTS B = 2  MinN = 10  MaxN = 10  Mode = "sub"
SPECIFICATION Spec
INVARIANTS Safe RhsUntouched Contract
CHECK_DEADLOCK FALSE
