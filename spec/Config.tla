------------------------------- MODULE Config -------------------------------
(***************************************************************************)
(* C16: the space of supported build configurations and the rule that all  *)
(* of them build and compute identical results.                            *)
(*  - MODE "enumerate": one state per configuration; TLC prints each as    *)
(*    JSON, which is what the orchestrator builds (the model is the source *)
(*    of the configuration list).                                          *)
(*  - MODE "trace": a recorded NDJSON list of build/transcript outcomes is *)
(*    replayed: every required configuration must appear, must have built, *)
(*    and every transcript digest must equal the first one seen.           *)
(***************************************************************************)
EXTENDS Naturals, Sequences, SequencesExt, FiniteSets, TLC, Json, IOUtils

Features      == {"rand", "serde", "quickcheck", "arbitrary"}
NoStdFeatures == {"rand", "serde"}          \* quickcheck and arbitrary need std (ci/test_full.sh)
FeatureSets   == {[std |-> TRUE, fs |-> S] : S \in SUBSET Features}
                 \cup {[std |-> FALSE, fs |-> S] : S \in SUBSET NoStdFeatures}
Profiles      == {"debug", "release"}
Configs       == {[std |-> f.std, fs |-> f.fs, profile |-> p] : f \in FeatureSets, p \in Profiles}
\* the combinations ci/test_full.sh builds (default; each feature alone with std; all with std;
\* bare no_std; each no_std feature alone; both)
CiSets == {[std |-> TRUE, fs |-> {}]} \cup {[std |-> TRUE, fs |-> {x}] : x \in Features}
          \cup {[std |-> TRUE, fs |-> Features]}
          \cup {[std |-> FALSE, fs |-> {}]} \cup {[std |-> FALSE, fs |-> {x}] : x \in NoStdFeatures}
          \cup {[std |-> FALSE, fs |-> NoStdFeatures]}
Name(c) == (IF c.std THEN "std" ELSE "nostd")

Mode == IOEnv.CONFIG_MODE
Ev   == IF Mode = "trace" THEN ndJsonDeserialize(IOEnv.TRACE) ELSE <<>>
Tier == IOEnv.CONFIG_TIER
\* what the run must cover: quick = the CI sets in debug plus release of the two extremes; thorough = everything
Required == IF Tier = "thorough" THEN Configs
            ELSE {[std |-> f.std, fs |-> f.fs, profile |-> "debug"] : f \in CiSets}
                 \cup {[std |-> TRUE, fs |-> {}, profile |-> "release"], [std |-> FALSE, fs |-> {}, profile |-> "release"]}

VARIABLES c, l, pending, digest
vars == <<c, l, pending, digest>>

EvConfig(e) == [std |-> e.std, fs |-> {e.features[k] : k \in 1..Len(e.features)}, profile |-> e.profile]

Init == IF Mode = "enumerate"
        THEN c \in Required /\ l = 0 /\ pending = {} /\ digest = ""
        ELSE c = [std |-> TRUE, fs |-> {}, profile |-> "debug"] /\ l = 1 /\ pending = Required /\ digest = ""

Step ==
    /\ Mode = "trace" /\ l <= Len(Ev)
    /\ LET e == Ev[l]  k == EvConfig(e) IN
       /\ c' = k
       /\ pending' = pending \ {k}
       /\ digest' = IF digest = "" /\ e.has_transcript THEN e.digest ELSE digest
       /\ IF k \notin Configs THEN PrintT(<<"BAD", l, "config", e.name, "unsupported_configuration">>)
          ELSE IF ~e.built THEN PrintT(<<"BAD", l, "config", e.name, "build_failed">>)
          ELSE IF e.has_transcript /\ digest # "" /\ e.digest # digest
               THEN PrintT(<<"BAD", l, "config", e.name, "result_differs">>)
          ELSE TRUE
       /\ IF l = Len(Ev) /\ pending' # {} THEN PrintT(<<"BAD", l, "config", "missing", "configuration_not_examined">>) ELSE TRUE
    /\ l' = l + 1
Next == Step
Spec == Init /\ [][Next]_vars

Enumerated == IF Mode = "enumerate"
              THEN PrintT(<<"CONFIG", ToJson([std |-> c.std, features |-> SetToSeq(c.fs), profile |-> c.profile])>>)
              ELSE TRUE
Accepted == IF Mode = "enumerate" THEN TRUE
            ELSE IF TLCGet("stats").diameter = Len(Ev) + 1 THEN PrintT(<<"TRACE_CONSUMED", Len(Ev)>>)
            ELSE PrintT(<<"TRACE_STUCK", TLCGet("stats").diameter>>) /\ FALSE
=============================================================================
