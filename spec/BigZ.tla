-------------------------------- MODULE BigZ --------------------------------
(***************************************************************************)
(* L0 signed integers: [s |-> -1 | 0 | 1, d |-> canonical BigNat].         *)
(* s = 0 exactly when d = <<>>.  Bit operators follow the infinite two's   *)
(* complement expansion, defined through ~x = -x - 1 (not through the      *)
(* running carries the implementation uses).                               *)
(***************************************************************************)
EXTENDS BigNat

Z(s, d)   == [s |-> IF d = <<>> THEN 0 ELSE s, d |-> d]
ZZero     == [s |-> 0, d |-> <<>>]
ZOne      == [s |-> 1, d |-> <<1>>]
ZNat(d)   == Z(1, d)
ZInt(k)   == IF k < 0 THEN Z(-1, OfInt(-k)) ELSE Z(1, OfInt(k))
ZCanon(x) == /\ x.s \in {-1, 0, 1}
             /\ IsCanon(x.d)
             /\ (x.s = 0) = (x.d = <<>>)
ZVal(x)   == x.s * Val(x.d)

ZNeg(x)   == [s |-> -x.s, d |-> x.d]
ZAbs(x)   == [s |-> IF x.s = 0 THEN 0 ELSE 1, d |-> x.d]
ZIsNeg(x) == x.s = -1
ZCmp(x, y) ==
    IF x.s # y.s THEN (IF x.s < y.s THEN -1 ELSE 1)
    ELSE IF x.s = 0 THEN 0
    ELSE x.s * Cmp(x.d, y.d)
ZEq(x, y) == x.s = y.s /\ x.d = y.d

ZAdd(x, y) ==
    IF x.s = 0 THEN y ELSE IF y.s = 0 THEN x
    ELSE IF x.s = y.s THEN [s |-> x.s, d |-> Add(x.d, y.d)]
    ELSE LET c == Cmp(x.d, y.d) IN
         IF c = 0 THEN ZZero
         ELSE IF c > 0 THEN [s |-> x.s, d |-> Sub(x.d, y.d)]
         ELSE [s |-> y.s, d |-> Sub(y.d, x.d)]
ZSub(x, y) == ZAdd(x, ZNeg(y))
ZMul(x, y) == Z(x.s * y.s, Mul(x.d, y.d))
ZPow(x, e) == Z(IF x.s = -1 /\ (e % 2) = 1 THEN -1 ELSE 1, Pow(x.d, e))
ZAddInt(x, k) == ZAdd(x, ZInt(k))

\* sign of a value as -1/0/1
ZSgn(x) == x.s

----------------------------------------------------------------------------
\* ~x = -x - 1 as a natural number, for x < 0:  |x| - 1
NotNeg(x) == Sub(x.d, <<1>>)
\* -(n) - 1 for a natural n: the negative number whose complement is n
OfNot(n)  == [s |-> -1, d |-> AddSmall(n, 1)]

ZAnd(x, y) ==
    IF x.s >= 0 /\ y.s >= 0 THEN ZNat(NAnd(x.d, y.d))
    ELSE IF x.s >= 0 THEN ZNat(NAndNot(x.d, NotNeg(y)))
    ELSE IF y.s >= 0 THEN ZNat(NAndNot(y.d, NotNeg(x)))
    ELSE OfNot(NOr(NotNeg(x), NotNeg(y)))
ZOr(x, y) ==
    IF x.s >= 0 /\ y.s >= 0 THEN ZNat(NOr(x.d, y.d))
    ELSE IF x.s >= 0 THEN OfNot(NAndNot(NotNeg(y), x.d))
    ELSE IF y.s >= 0 THEN OfNot(NAndNot(NotNeg(x), y.d))
    ELSE OfNot(NAnd(NotNeg(x), NotNeg(y)))
ZXor(x, y) ==
    IF x.s >= 0 /\ y.s >= 0 THEN ZNat(NXor(x.d, y.d))
    ELSE IF x.s >= 0 THEN OfNot(NXor(x.d, NotNeg(y)))
    ELSE IF y.s >= 0 THEN OfNot(NXor(y.d, NotNeg(x)))
    ELSE ZNat(NXor(NotNeg(x), NotNeg(y)))
ZNot(x) == IF x.s >= 0 THEN OfNot(x.d) ELSE ZNat(NotNeg(x))

\* bit i of the infinite two's complement expansion (0/1)
ZBit(x, i) == IF x.s >= 0 THEN Bit(x.d, i) ELSE 1 - Bit(NotNeg(x), i)
ZSetBit(x, i, v) ==
    LET p == ZNat(PowerOfTwo(i)) IN
    IF (ZBit(x, i) = 1) = v THEN x
    ELSE IF v THEN ZAdd(x, p) ELSE ZSub(x, p)

ZShl(x, n) == [s |-> x.s, d |-> Shl(x.d, n)]
\* floor(x / 2^n)
ZShr(x, n) == IF x.s >= 0 THEN ZNat(Shr(x.d, n)) ELSE OfNot(Shr(NotNeg(x), n))

----------------------------------------------------------------------------
(* Division conventions, relational: each says whether <<q, r>> is THE     *)
(* quotient/remainder pair of a by b (b # 0) for that convention.          *)
ZDivIdent(a, b, q, r) == ZEq(a, ZAdd(ZMul(q, b), r))
IsTruncDivRem(a, b, q, r) ==
    /\ ZDivIdent(a, b, q, r) /\ Cmp(r.d, b.d) < 0 /\ (r.s = 0 \/ r.s = a.s)
IsFloorDivMod(a, b, q, r) ==
    /\ ZDivIdent(a, b, q, r) /\ Cmp(r.d, b.d) < 0 /\ (r.s = 0 \/ r.s = b.s)
IsEuclidDivRem(a, b, q, r) ==
    /\ ZDivIdent(a, b, q, r) /\ Cmp(r.d, b.d) < 0 /\ r.s >= 0
\* ceiling: remainder has the sign opposite to b (or zero)
IsCeilDivRem(a, b, q, r) ==
    /\ ZDivIdent(a, b, q, r) /\ Cmp(r.d, b.d) < 0 /\ (r.s = 0 \/ r.s = -b.s)

(* Functional forms (used where the trace logs only one of q, r): computed *)
(* from the truncated pair obtained by shift-subtract on magnitudes.       *)
ZTruncDivRem(a, b) ==
    LET qr == DivMod(a.d, b.d) IN << Z(a.s * b.s, qr[1]), Z(a.s, qr[2]) >>
ZFloorDivMod(a, b) ==
    LET t == ZTruncDivRem(a, b) IN
    IF t[2].s # 0 /\ t[2].s # b.s THEN << ZAddInt(t[1], -1), ZAdd(t[2], b) >> ELSE t
ZEuclidDivRem(a, b) ==
    LET t == ZTruncDivRem(a, b) IN
    IF t[2].s < 0 THEN (IF b.s > 0 THEN << ZAddInt(t[1], -1), ZAdd(t[2], b) >>
                        ELSE << ZAddInt(t[1], 1), ZSub(t[2], b) >>)
    ELSE t
ZCeilDiv(a, b) ==
    LET t == ZTruncDivRem(a, b) IN
    IF t[2].s # 0 /\ t[2].s = b.s THEN ZAddInt(t[1], 1) ELSE t[1]
=============================================================================
